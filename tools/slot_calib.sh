#!/usr/bin/env bash
# Silence check of the current /verif sources against a clean scratch worktree, from a scratch copy of /verif
# (does not touch /repo, /verif/.build or /verif/evidence).   usage: tools/slot_calib.sh <slot> <tier> <seed>...
set -u
slot="$1"; shift
S="/tmp/slots/$slot"; mkdir -p "$S"
[ -d "$S/repo" ] || { git -C /repo worktree add -q --detach "$S/repo" HEAD && cp /repo/Cargo.lock "$S/repo/"; }
git -C "$S/repo" checkout -q -- .
rsync -a --delete --exclude .build --exclude .git --exclude seeded --exclude replay --exclude evidence --exclude mutation_sweep /verif/ "$S/verif/"
cd "$S/verif" && VERIF_REPO="$S/repo" ./tools/calibrate.sh "$@"
