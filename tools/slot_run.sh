#!/usr/bin/env bash
# Run checks against a patched scratch worktree from a scratch copy of /verif (nothing touches /repo or /verif/.build).
# usage: tools/slot_run.sh <slot> <patch.diff> [tier] [Cxx ...]      (slot dirs live under /tmp/slots and are reused)
set -u
slot="$1"; patch="$2"; shift 2
tier="${1:-quick}"; [ $# -gt 0 ] && shift
checks=("$@"); [ ${#checks[@]} -eq 0 ] && checks=(C01 C02 C03 C04 C05 C06 C07 C08 C09 C10 C11 C12 C13 C14 C15 C16 C17 C18 C19)
S="/tmp/slots/$slot"; mkdir -p "$S"
[ -d "$S/repo" ] || { git -C /repo worktree add -q --detach "$S/repo" HEAD && cp /repo/Cargo.lock "$S/repo/"; }
rsync -a --delete --exclude .build --exclude .git --exclude seeded --exclude replay --exclude evidence --exclude mutation_sweep /verif/ "$S/verif/"
git -C "$S/repo" checkout -q -- . ; git -C "$S/repo" apply "$patch" || { echo "patch does not apply"; exit 2; }
fired=()
for p in "${checks[@]}"; do
  out=$(cd "$S/verif" && VERIF_REPO="$S/repo" ./check "$p" "$tier" 2>&1); rc=$?
  if [ $rc -eq 1 ]; then fired+=("$p"); echo "FIRED $p: $(echo "$out" | grep -m1 'monitor=' | sed 's/^ *//' | cut -c1-260)";
  elif [ $rc -ne 0 ]; then echo "HARNESS-FAILURE $p (exit $rc): $(echo "$out" | grep -m1 -E 'HARNESS|error' | cut -c1-200)"; fi
done
git -C "$S/repo" checkout -q -- .
echo "SUMMARY $patch fired: ${fired[*]:-none}"
