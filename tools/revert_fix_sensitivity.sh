#!/usr/bin/env bash
# Validation of the machinery (DESIGN §7.2): every repaired defect, reverted on /repo's working tree,
# must make the owning property's quick check fail. Restores the tree after each revert.
# usage: tools/revert_fix_sensitivity.sh [logfile]
set -u
cd /verif
LOG="${1:-/verif/.build/logs/revert_sensitivity.log}"
mkdir -p "$(dirname "$LOG")"; : > "$LOG"
# commit -> checks expected to fire
declare -A OWNERS=(
 [b48c2f0]="C06 C10" [43fccf0]="C06" [8ce671f]="C06" [fdf13de]="C06"
 [38fd216]="C08 C16" [1c6599f]="C16" [dbfd504]="C02 C09" [feaf0f8]="C13"
 [c0c10cf]="C17" [26fcf62]="C18" [03ba2c3]="C19" [96bb30a]="C19"
 [3f63fa2]="C17" [f597789]="C18 C07" [f517440]="C11" [229a065]="C06 C08" [9e4047a]="C13" [d605501]="C15"
)
declare -A PRE=( [feaf0f8]="9e4047a" )
for c in ${ONLY:-b48c2f0 43fccf0 8ce671f fdf13de 38fd216 1c6599f dbfd504 feaf0f8 c0c10cf 26fcf62 03ba2c3 96bb30a 3f63fa2 f597789 f517440 229a065 9e4047a d605501}; do
  git -C /repo checkout -q -- . 
  # a later fix that rewrote the same lines is taken out first (F17 generalised F8's repair)
  for pre in ${PRE[$c]:-}; do git -C /repo diff "$pre~1" "$pre" | git -C /repo apply -R 2>>"$LOG" || echo "REVERT-FAILED (prerequisite $pre of $c)" | tee -a "$LOG"; done
  if ! git -C /repo diff "$c~1" "$c" | git -C /repo apply -R 2>>"$LOG"; then echo "REVERT-FAILED $c" | tee -a "$LOG"; continue; fi
  for p in ${OWNERS[$c]}; do
    out=$(./check "$p" quick 2>&1); rc=$?
    n=$(echo "$out" | grep -c '^VIOLATION')
    mon=$(echo "$out" | grep -m1 'monitor=' | sed 's/^ *//' | cut -c1-160)
    echo "revert $c -> $p exit=$rc violations=$n  $mon" | tee -a "$LOG"
  done
done
git -C /repo checkout -q -- .
git -C /repo status --short | head -3
echo "done" | tee -a "$LOG"
