#!/usr/bin/env bash
# Thorough tier of C10: the same small buildings evaluated under Miri with several -Zmiri-seed values.
# Each seed fixes the SipHash keys of every HashMap/HashSet, i.e. a replayable set of iteration orders.
# usage: extra_C10.sh <vmon> [ignored]
set -u
VMON="$1"
VERIF="$(cd "$(dirname "${BASH_SOURCE[0]}")/.." && pwd)"
OUT="$VERIF/.build/miri-out"; rm -rf "$OUT"; mkdir -p "$OUT"
NSEEDS="${VERIF_MIRI_SEEDS:-16}"
if ! cargo +nightly miri --version >/dev/null 2>&1; then
  echo "miri not available: seeded hash-order replay skipped" >&2; exit 0
fi
export CARGO_NET_OFFLINE=true CARGO_TARGET_DIR="$VERIF/.build/miri"
cd "$VERIF/miri-driver" || exit 2
# build once (interpreting seed 0), then the other seeds in parallel
MIRIFLAGS="-Zmiri-seed=0" cargo +nightly miri run --offline -q > "$OUT/seed_0.txt" 2> "$OUT/seed_0.err" || { echo "HARNESS-ERROR: miri run failed (see $OUT/seed_0.err)" >&2; tail -20 "$OUT/seed_0.err" >&2; exit 2; }
pids=()
for s in $(seq 1 $((NSEEDS-1))); do
  MIRIFLAGS="-Zmiri-seed=$s" cargo +nightly miri run --offline -q > "$OUT/seed_$s.txt" 2> "$OUT/seed_$s.err" &
  pids+=($!)
  # at most 8 interpreters at a time
  if [ ${#pids[@]} -ge 8 ]; then wait "${pids[0]}"; pids=("${pids[@]:1}"); fi
done
wait
args=(C10-miri --tier thorough --miri-outputs "$OUT")
[ -n "${VERIF_SEED:-}" ] && args+=(--seed "$VERIF_SEED")
"$VMON" "${args[@]}"
