#!/usr/bin/env bash
# Process a list of sub-agent changes one after the other from a frozen copy of /verif (so that the harness can be
# edited meanwhile): confirm each in its scratch worktree, apply it to /repo, run every quick check, undo, file it.
# usage: tools/queue_mutants.sh "C01 E" "C01 F" ...
set -u
VQ=/tmp/vq
mkdir -p "$VQ"
rsync -a --delete --exclude .git --exclude seeded --exclude replay --exclude mutation_sweep /verif/ "$VQ/"
export VQ
for item in "$@"; do
  set -- $item
  echo "=== $1 $2 $(date +%H:%M:%S)"
  /verif/tools/process_mutant_g.sh "$1" "$2" 2>&1 | grep -E "CONFIRM|demo |suite |FIRED|HARNESS|SUMMARY|FILED|no patch"
done
echo "=== queue done $(date +%H:%M:%S)"
