#!/usr/bin/env bash
# Thorough tier of C16: a shard of the process corpus under valgrind memcheck on the release binary.
# usage: extra_C16.sh <vmon> <cteepbd release binary>
set -u
VMON="$1"; CLI_RELEASE="$2"
command -v valgrind >/dev/null 2>&1 || { echo "valgrind not available: memcheck shard skipped" >&2; exit 0; }
args=(C16-valgrind --tier thorough --cli-release "$CLI_RELEASE")
[ -n "${VERIF_SEED:-}" ] && args+=(--seed "$VERIF_SEED")
"$VMON" "${args[@]}" | grep --line-buffered -v -E '^(f_cgn_ren_A: |Algo malo pasa )'
exit ${PIPESTATUS[0]}
