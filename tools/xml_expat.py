#!/usr/bin/env python3
"""Second opinion on XML well-formedness: reads a document on stdin, prints OK or ERR <reason>."""
import sys
import xml.parsers.expat

data = sys.stdin.buffer.read()
p = xml.parsers.expat.ParserCreate("utf-8")
try:
    p.Parse(data, True)
    print("OK")
except xml.parsers.expat.ExpatError as e:
    print("ERR", e)
