#!/usr/bin/env python3
"""Mechanical mutation sweep (DESIGN §7.4): an unbiased sample of small source changes, complementing the
hand-made seeded changes of /verif/seeded.

For each sampled mutant of /repo's library / CLI sources (test modules excluded):
  1. apply it to a scratch worktree of /repo (one per worker slot, under /tmp/msweep, removed at the end);
  2. `cargo build`           -> "compile_error" mutants are dropped;
  3. `cargo test --workspace`-> mutants the existing 90 tests kill are recorded as "killed_by_tests";
  4. survivors: every quick check is run from a scratch copy of /verif against the mutated worktree
     (VERIF_REPO) -> "caught" with the list of checks that exit 1, or "survived".
Survivors need triage by hand (equivalent mutant / outside every property / blind spot); the triage is
recorded in mutation_sweep/triage.md.

usage: tools/mutation_sweep.py <count> [--seed N] [--slots K] [--out DIR] [--files f1,f2]
       tools/mutation_sweep.py 0 --seeded [--seed N] [--slots K]     re-check every /verif/seeded change
"""
import json, os, random, re, shutil, subprocess, sys, threading, time, argparse

VERIF = os.path.dirname(os.path.dirname(os.path.abspath(__file__)))
REPO = "/repo"
PROPS = ["C%02d" % i for i in range(1, 20)]
ENV = dict(os.environ, CARGO_NET_OFFLINE="true")

FILES = [
    "src/balance.rs", "src/cte.rs", "src/components.rs", "src/wfactors.rs", "src/vecops.rs", "src/asctexml.rs", "src/asplain.rs",
    "src/bin/cteepbd.rs", "src/types/rennrenco2.rs", "src/types/carrier.rs", "src/types/factor.rs", "src/types/tmeta.rs",
    "src/types/service.rs", "src/types/prodsource.rs", "src/types/ctypes.rs", "src/types/hasvalues.rs",
    "src/types/balance/all_carriers.rs", "src/types/balance/single_carrier.rs", "src/types/balance/energy_performance.rs",
    "src/types/energy/mod.rs", "src/types/energy/elements.rs", "src/types/energy/used.rs", "src/types/energy/prod.rs",
    "src/types/energy/aux.rs", "src/types/energy/out.rs", "src/types/needs/mod.rs",
]

# (name, regex, replacement function) - applied to one match on one line
OPS = [
    ("add->sub", re.compile(r"(?<=[\w\)\]]) \+ (?=[\w\(\-])"), lambda m: " - "),
    ("sub->add", re.compile(r"(?<=[\w\)\]]) - (?=[\w\(])"), lambda m: " + "),
    ("mul->div", re.compile(r"(?<=[\w\)\]]) \* (?=[\w\(])"), lambda m: " / "),
    ("div->mul", re.compile(r"(?<=[\w\)\]]) / (?=[\w\(])"), lambda m: " * "),
    ("addassign->subassign", re.compile(r" \+= "), lambda m: " -= "),
    ("subassign->addassign", re.compile(r" -= "), lambda m: " += "),
    ("lt->le", re.compile(r"(?<=[\w\)\]]) < (?=[\w\(\-])"), lambda m: " <= "),
    ("gt->ge", re.compile(r"(?<=[\w\)\]]) > (?=[\w\(\-])"), lambda m: " >= "),
    ("le->lt", re.compile(r" <= "), lambda m: " < "),
    ("ge->gt", re.compile(r" >= "), lambda m: " > "),
    ("gt->lt", re.compile(r"(?<=[\w\)\]]) > (?=[\w\(\-])"), lambda m: " < "),
    ("eq->ne", re.compile(r" == "), lambda m: " != "),
    ("ne->eq", re.compile(r" != "), lambda m: " == "),
    ("and->or", re.compile(r" && "), lambda m: " || "),
    ("or->and", re.compile(r" \|\| "), lambda m: " && "),
    ("min->max", re.compile(r"\.min\("), lambda m: ".max("),
    ("max->min", re.compile(r"\.max\("), lambda m: ".min("),
    ("vecvecmin->sum", re.compile(r"\bvecvecmin\("), lambda m: "vecvecsum("),
    ("vecvecsum->dif", re.compile(r"\bvecvecsum\("), lambda m: "vecvecdif("),
    ("vecvecdif->sum", re.compile(r"\bvecvecdif\("), lambda m: "vecvecsum("),
    ("zero->one", re.compile(r"(?<![\w\.])0\.0(?![\w\.])"), lambda m: "1.0"),
    ("one->zero", re.compile(r"(?<![\w\.])1\.0(?![\w\.])"), lambda m: "0.0"),
    ("const*10", re.compile(r"(?<![\w\.])(0\.\d*[1-9]\d*|[1-9]\d*\.\d+)(?:_f32)?(?![\w\.])"), lambda m: repr(float(m.group(1)) * 10.0)),
    ("ren->nren", re.compile(r"\.ren\b"), lambda m: ".nren"),
    ("nren->ren", re.compile(r"\.nren\b"), lambda m: ".ren"),
    ("co2->nren", re.compile(r"\.co2\b"), lambda m: ".nren"),
    ("true->false", re.compile(r"\btrue\b"), lambda m: "false"),
    ("false->true", re.compile(r"\bfalse\b"), lambda m: "true"),
    ("not-removed", re.compile(r"(?<=[\s\(])!(?=[a-z_\(])"), lambda m: ""),
    ("A->B", re.compile(r"\bStep::A\b"), lambda m: "Step::B"),
    ("B->A", re.compile(r"\bStep::B\b"), lambda m: "Step::A"),
    ("A_RED->A_NEPB", re.compile(r"\bDest::A_RED\b"), lambda m: "Dest::A_NEPB"),
    ("A_NEPB->A_RED", re.compile(r"\bDest::A_NEPB\b"), lambda m: "Dest::A_RED"),
    ("INSITU->COGEN", re.compile(r"\bSource::INSITU\b"), lambda m: "Source::COGEN"),
    ("EL_INSITU->EL_COGEN", re.compile(r"\bProdSource::EL_INSITU\b"), lambda m: "ProdSource::EL_COGEN"),
    ("iter-skip-first", re.compile(r"\.iter\(\)(?=\s*\.(map|filter|zip|fold|sum))"), lambda m: ".iter().skip(1)"),
    ("epus->nepus", re.compile(r"\bepus_an\b"), lambda m: "nepus_an"),
    ("grid->onst", re.compile(r"\bgrid_an\b"), lambda m: "onst_an"),
    ("is_epb-negated", re.compile(r"\.is_epb\(\)"), lambda m: ".is_nepb()"),
    ("is_nearby->is_onsite", re.compile(r"\.is_nearby\(\)"), lambda m: ".is_onsite()"),
    ("unwrap_or_default-one", re.compile(r"\.unwrap_or\(0\.0\)"), lambda m: ".unwrap_or(1.0)"),
    # second generation (round 2 of the task): narrower, "forgot a detail" changes
    ("abs-removed", re.compile(r"\.abs\(\)"), lambda m: ""),
    ("max0-removed", re.compile(r"\.max\(0\.0\)"), lambda m: ""),
    ("any->all", re.compile(r"\.any\("), lambda m: ".all("),
    ("all->any", re.compile(r"\.all\("), lambda m: ".any("),
    ("find->rfind", re.compile(r"\.find\((?=\|)"), lambda m: ".rfind("),
    ("iter-take-first", re.compile(r"\.iter\(\)(?=\s*\.(map|filter|zip|fold|sum|for_each))"), lambda m: ".iter().take(1)"),
    ("trim-removed", re.compile(r"\.trim\(\)"), lambda m: ""),
    ("continue->break", re.compile(r"\bcontinue;"), lambda m: "break;"),
    ("first->last", re.compile(r"\.first\(\)"), lambda m: ".last()"),
    ("next->last", re.compile(r"\.next\(\)(?=\s*\.|\s*\?|\s*;)"), lambda m: ".last()"),
    ("splitn-1", re.compile(r"\.splitn\((\d+),"), lambda m: ".splitn(%d," % (int(m.group(1)) + 1)),
    ("skip-changed", re.compile(r"\.skip\((\d+)\)"), lambda m: ".skip(%d)" % (int(m.group(1)) + 1)),
    ("len-minus-one", re.compile(r"(?<=\w)\.len\(\)(?=\s*(\)|;|,|\]|\}|$))"), lambda m: ".len().saturating_sub(1)"),
]
# operators that apply INSIDE string literals (format precision: the documented number of decimals)
STRING_OPS = [
    ("precision-1", re.compile(r"\{(\w*):(>?\d*)\.([1-9])\}"), lambda m: "{%s:%s.%d}" % (m.group(1), m.group(2), int(m.group(3)) - 1)),
    ("precision+1", re.compile(r"\{(\w*):(>?\d*)\.([0-8])\}"), lambda m: "{%s:%s.%d}" % (m.group(1), m.group(2), int(m.group(3)) + 1)),
]


def candidate_sites():
    sites = []
    for f in FILES:
        p = os.path.join(REPO, f)
        if not os.path.exists(p):
            continue
        lines = open(p, encoding="utf-8").read().split("\n")
        in_block_comment = False
        for i, l in enumerate(lines):
            if re.match(r"\s*#\[cfg\(test\)\]", l):
                break  # test module: the rest of the file
            s = l.strip()
            if s.startswith("//") or s.startswith("#[") or s.startswith("use ") or not s:
                continue
            if "/*" in s:
                in_block_comment = True
            if in_block_comment:
                if "*/" in s:
                    in_block_comment = False
                continue
            code = l.split("//")[0]
            # statement deletion: a one-line assignment / compound assignment / method-call statement (not a `let`)
            if re.match(r"^\s+(?!let\b|return\b|use\b|pub\b|fn\b|if\b|for\b|while\b|match\b|else\b|\}|\.)[\w\.\[\]\*&\(\)]+(\s*[\+\-\*/]?=\s.*|\.\w+\(.*\));\s*$", code) and code.count("(") == code.count(")"):
                sites.append({"file": f, "line": i + 1, "op": "stmt-deleted", "col": 0, "old": l, "new": re.match(r"^\s*", l).group(0) + "// (statement deleted)"})
            # leave string literals alone (messages, formats): mutate only outside quotes
            for name, rx, rep in OPS:
                for m in rx.finditer(code):
                    if code[: m.start()].count('"') % 2 == 1:
                        continue
                    new = code[: m.start()] + rep(m) + code[m.end():] + l[len(code):]
                    if new != l:
                        sites.append({"file": f, "line": i + 1, "op": name, "col": m.start(), "old": l, "new": new})
            for name, rx, rep in STRING_OPS:
                for m in rx.finditer(code):
                    if code[: m.start()].count('"') % 2 == 0:
                        continue
                    new = code[: m.start()] + rep(m) + code[m.end():] + l[len(code):]
                    if new != l:
                        sites.append({"file": f, "line": i + 1, "op": name, "col": m.start(), "old": l, "new": new})
    return sites


def sh(cmd, cwd, timeout, env=None):
    try:
        r = subprocess.run(cmd, cwd=cwd, shell=True, stdout=subprocess.PIPE, stderr=subprocess.STDOUT, timeout=timeout, env=env or ENV)
        return r.returncode, r.stdout.decode("utf-8", "replace")
    except subprocess.TimeoutExpired as e:
        return 124, (e.stdout or b"").decode("utf-8", "replace") + "\nTIMEOUT"


class Slot:
    def __init__(self, root, k):
        self.dir = os.path.join(root, "slot%d" % k)
        self.repo = os.path.join(self.dir, "repo")
        self.verif = os.path.join(self.dir, "verif")
        os.makedirs(self.dir, exist_ok=True)
        if not os.path.isdir(self.repo):
            rc, out = sh("git -C %s worktree add --detach %s HEAD" % (REPO, self.repo), "/", 120)
            assert rc == 0, out
        shutil.copy(os.path.join(REPO, "Cargo.lock"), os.path.join(self.repo, "Cargo.lock"))
        sh("rsync -a --delete --exclude .build --exclude .git --exclude seeded --exclude replay --exclude evidence --exclude mutation_sweep %s/ %s/" % (VERIF, self.verif), "/", 300)
        self.env = dict(ENV, VERIF_REPO=self.repo, CARGO_TARGET_DIR=os.path.join(self.dir, "target"))

    def reset(self):
        sh("git checkout -- .", self.repo, 60)

    def close(self):
        sh("git -C %s worktree remove --force %s" % (REPO, self.repo), "/", 120)
        shutil.rmtree(self.dir, ignore_errors=True)


def run_mutant(slot, m, seed, checks=None, skip_tests=False):
    slot.reset()
    if "patch" in m:
        rc, out = sh("git apply %s" % m["patch"], slot.repo, 60)
        if rc != 0:
            return dict(m, status="patch_does_not_apply", error=out[-300:])
    else:
        p = os.path.join(slot.repo, m["file"])
        lines = open(p, encoding="utf-8").read().split("\n")
        assert lines[m["line"] - 1] == m["old"], "source drifted"
        lines[m["line"] - 1] = m["new"]
        open(p, "w", encoding="utf-8").write("\n".join(lines))
    res = dict(m)
    t0 = time.time()
    rc, out = sh("cargo build --offline --all-targets", slot.repo, 900, slot.env)
    if rc != 0:
        res["status"] = "compile_error"
        slot.reset()
        return res
    rc, out = (0, "") if skip_tests else sh("timeout 600 cargo test --workspace --no-fail-fast --offline", slot.repo, 900, slot.env)
    if rc != 0:
        failed = re.findall(r"^test (\S+) \.\.\. FAILED", out, re.M)
        res["status"] = "killed_by_tests"
        res["tests_failed"] = len(failed)
        res["tests_failed_sample"] = failed[:3]
        slot.reset()
        return res
    caught, detail, harness = [], {}, []
    env = dict(slot.env)
    env.pop("CARGO_TARGET_DIR")
    env["VERIF_SEED"] = str(seed)
    nviol = {}
    for c in (checks or PROPS):
        rc, out = sh("./check %s quick" % c, slot.verif, 1200, env)
        if rc == 1 and "VIOLATION property=" in out:
            caught.append(c)
            mv = re.search(r"violations=(\d+)", out)
            nviol[c] = int(mv.group(1)) if mv else out.count("VIOLATION property=")
            mon = re.findall(r"monitor=(\S+)", out)
            detail[c] = sorted(set(mon))[:4]
        elif rc != 0:
            harness.append({"check": c, "exit": rc, "tail": out[-400:]})
    res["status"] = "caught" if caught else "survived"
    res["caught_by"] = caught
    res["monitors"] = detail
    res["violations"] = nviol
    if harness:
        res["harness_failures"] = harness
    res["seconds"] = round(time.time() - t0)
    slot.reset()
    return res


def recheck_seeded(a):
    """every /verif/seeded/<id>/patch.diff against the current harness, in parallel scratch slots (the filed
    meta.json of each change comes from tools/process_mutant.sh, which works on /repo itself)"""
    sd = os.path.join(VERIF, "seeded")
    todo = []
    for d in sorted(os.listdir(sd)):
        pth = os.path.join(sd, d, "patch.diff")
        if os.path.exists(pth):
            todo.append({"id": d, "patch": pth, "file": d, "line": 0, "op": "seeded", "col": 0})
    outp = os.path.join(a.out, "seeded_recheck.jsonl" if not a.own_only else "seeded_own_seed%d.jsonl" % a.seed)
    done = set()
    if a.own_only and os.path.exists(outp):
        # resume: changes filed after an earlier run are added, nothing is re-run
        done = {json.loads(l)["id"] for l in open(outp) if l.strip()}
        todo = [m for m in todo if m["id"] not in done]
    else:
        open(outp, "w").close()
    lock = threading.Lock()
    it = iter(todo)

    def worker(k):
        slot = Slot(a.root, k)
        try:
            while True:
                with lock:
                    m = next(it, None)
                if m is None:
                    break
                own = m["id"].split("-")[0]
                mp = os.path.join(sd, m["id"], "meta.json")
                if os.path.exists(mp):
                    own = json.load(open(mp)).get("breaks_property", own)
                try:
                    r = run_mutant(slot, m, a.seed, [own], True) if a.own_only else run_mutant(slot, m, a.seed)
                except Exception as e:
                    r = dict(m, status="harness_error", error=str(e))
                r["caught_by_owning_check"] = own in r.get("caught_by", [])
                with lock:
                    with open(outp, "a") as fh:
                        fh.write(json.dumps(r, ensure_ascii=False) + "\n")
                    print("%-8s %-16s own=%s %s" % (m["id"], r["status"], r["caught_by_owning_check"], ",".join(r.get("caught_by", []))), flush=True)
        finally:
            slot.close()

    ts = [threading.Thread(target=worker, args=(k,)) for k in range(a.slots)]
    for t in ts:
        t.start()
    for t in ts:
        t.join()
    sh("git -C %s worktree prune" % REPO, "/", 60)
    shutil.rmtree(a.root, ignore_errors=True)


def main():
    ap = argparse.ArgumentParser()
    ap.add_argument("count", type=int)
    ap.add_argument("--seed", type=int, default=1)
    ap.add_argument("--slots", type=int, default=3)
    ap.add_argument("--out", default=os.path.join(VERIF, "mutation_sweep"))
    ap.add_argument("--files", default="")
    ap.add_argument("--ops", default="", help="only these operators (comma separated)")
    ap.add_argument("--cap", type=int, default=0, help="at most this many mutants per (file, operator); default count/25")
    ap.add_argument("--root", default="/tmp/msweep")
    ap.add_argument("--own-only", action="store_true", help="with --seeded: only the owning property's check, repository tests skipped (detection at another seed)")
    ap.add_argument("--seeded", action="store_true", help="re-check the hand-made seeded changes of /verif/seeded instead of sampling mechanical mutants")
    a = ap.parse_args()
    os.makedirs(a.out, exist_ok=True)
    if a.seeded:
        return recheck_seeded(a)
    sites = candidate_sites()
    if a.files:
        keep = set(a.files.split(","))
        sites = [s for s in sites if s["file"] in keep]
    if a.ops:
        keep = set(a.ops.split(","))
        sites = [s for s in sites if s["op"] in keep]
    rnd = random.Random(a.seed)
    # sample per operator class evenly enough: shuffle, then cap the share of any single (file, op)
    rnd.shuffle(sites)
    picked, per = [], {}
    for s in sites:
        k = (s["file"], s["op"])
        if per.get(k, 0) >= (a.cap or max(2, a.count // 25)):
            continue
        per[k] = per.get(k, 0) + 1
        picked.append(s)
        if len(picked) >= a.count:
            break
    head = subprocess.run("git -C %s rev-parse --short HEAD" % REPO, shell=True, stdout=subprocess.PIPE).stdout.decode().strip()
    outp = os.path.join(a.out, "results_seed%d.jsonl" % a.seed)
    done = set()
    if os.path.exists(outp):
        for l in open(outp):
            r = json.loads(l)
            done.add((r["file"], r["line"], r["op"], r["col"]))
    todo = [s for s in picked if (s["file"], s["line"], s["op"], s["col"]) not in done]
    print("candidate sites: %d, sampled: %d, already done: %d, repo HEAD %s" % (len(sites), len(picked), len(picked) - len(todo), head), flush=True)
    lock = threading.Lock()
    it = iter(todo)

    def worker(k):
        slot = Slot(a.root, k)
        try:
            while True:
                with lock:
                    m = next(it, None)
                if m is None:
                    break
                try:
                    r = run_mutant(slot, m, a.seed)
                except Exception as e:  # harness trouble: recorded, never a verdict
                    r = dict(m, status="harness_error", error=str(e))
                r["repo_head"] = head
                with lock:
                    with open(outp, "a") as fh:
                        fh.write(json.dumps(r, ensure_ascii=False) + "\n")
                    print("%-16s %s:%d %-18s %s" % (r["status"], r["file"], r["line"], r["op"], ",".join(r.get("caught_by", []))), flush=True)
        finally:
            slot.close()

    ts = [threading.Thread(target=worker, args=(k,)) for k in range(a.slots)]
    for t in ts:
        t.start()
    for t in ts:
        t.join()
    sh("git -C %s worktree prune" % REPO, "/", 60)
    shutil.rmtree(a.root, ignore_errors=True)
    # summary
    rows = [json.loads(l) for l in open(outp)]
    by = {}
    for r in rows:
        by[r["status"]] = by.get(r["status"], 0) + 1
    print("summary:", json.dumps(by))


if __name__ == "__main__":
    main()
