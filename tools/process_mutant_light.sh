#!/usr/bin/env bash
# Lighter filing of a sub-agent change when the serial queue on /repo is too slow: confirm it in its scratch worktree,
# apply it to the development worktree (/tmp/devrepo, same HEAD as /repo), run the OWNING check only, file it under
# /verif/seeded.        usage: tools/process_mutant_light.sh <dir under /tmp/mut> <label>
set -u
P="$1"; X="$2"
W="/tmp/mut/$P"; M="$W/_mutant/$X"; D="/verif/seeded/$P-$X"
[ -f "$M/patch.diff" ] || { echo "no patch in $M"; exit 2; }
own=$(head -1 "$M/README.md" | grep -o "C[0-9][0-9]" | head -1); [ -n "$own" ] || own="$P"
conf=$(/verif/tools/confirm_mutant.sh "$W" "$X" 2>&1 | grep -v WARNING)
echo "$conf"
res=$(/verif/tools/pretest.sh "$P" "$X" "$own" 2>&1)
echo "$res"
mkdir -p "$D"; cp "$M/patch.diff" "$D/patch.diff"; cp "$M/demo.rs" "$D/demo.rs"; cp "$M/README.md" "$D/README.md" 2>/dev/null
CONF="$conf" RES="$res" python3 - "$P" "$X" "$D" "$own" <<'PY'
import json, sys, re, os
P, X, D, own = sys.argv[1:5]
conf = os.environ["CONF"]; res = os.environ["RES"]
fired = [own] if re.search(r"exit=1 monitor=", res) else []
mon = res.split('monitor=', 1)[1][:300] if 'monitor=' in res else ''
def g(k):
    m = re.search(k + r" *: (.*)", conf)
    return m.group(1) if m else None
meta = {
 "id": f"{P}-{X}", "breaks_property": own,
 "source": "independent sub-agent given the property texts, a focus area and a scratch worktree",
 "what_it_needs_to_manifest": "see README.md (written by the sub-agent)",
 "confirmed_in_scratch_worktree": {"demo_on_clean_code": g("demo on clean code"), "demo_with_patch": g("demo with patch"), "existing_suite_with_patch": g("suite with patch")},
 "checks_run": f"patch applied to a scratch worktree of /repo's HEAD (VERIF_REPO), ./check {own} quick only (tools/process_mutant_light.sh: the serial queue on /repo itself ran out of time for the full 19-check matrix)",
 "checks_that_fired": fired, "first_monitor_per_check": ({own: mon} if fired else {}), "detected_by_owning_check": own in fired,
}
json.dump(meta, open(D + '/meta.json', 'w'), indent=1)
print("FILED-LIGHT", D, "fired:", fired)
PY
