#!/usr/bin/env bash
# Informational: line / region coverage of /repo/src reached by the quick workloads of the in-process
# monitors (nightly -Cinstrument-coverage build of the harness + the nightly sysroot's llvm-cov).
# Not a verdict and not used by any check; writes /verif/coverage_report.txt.
# usage: tools/coverage.sh [scale]
set -u
VERIF="$(cd "$(dirname "${BASH_SOURCE[0]}")/.." && pwd)"
SCALE="${1:-0.2}"
BIN_DIR="$(rustc +nightly --print sysroot)/lib/rustlib/x86_64-unknown-linux-gnu/bin"
[ -x "$BIN_DIR/llvm-cov" ] || { echo "llvm-cov not available" >&2; exit 0; }
export CARGO_NET_OFFLINE=true
T="$VERIF/.build/cov"; mkdir -p "$T/prof"; rm -f "$T"/prof/*.profraw
( cd "$VERIF/harness" && RUSTFLAGS="-Cinstrument-coverage" CARGO_TARGET_DIR="$T/target" cargo +nightly build --release --offline ) > "$T/build.log" 2>&1 || { tail -20 "$T/build.log"; exit 2; }
( cd "$VERIF/.." && cd /repo && RUSTFLAGS="-Cinstrument-coverage" CARGO_TARGET_DIR="$T/cli" cargo +nightly build --offline --bin cteepbd ) >> "$T/build.log" 2>&1 || { tail -20 "$T/build.log"; exit 2; }
for p in C01 C02 C03 C04 C05 C06 C07 C08 C09 C10 C11 C12 C13 C14 C15 C16 C17 C18 C19; do
  LLVM_PROFILE_FILE="$T/prof/$p-%p-%m.profraw" VERIF_DIR="$T/out" "$T/target/release/vmon" $p --tier quick --scale "$SCALE" --cli-debug "$T/cli/debug/cteepbd" > "$T/$p.log" 2>&1
done
"$BIN_DIR/llvm-profdata" merge -sparse "$T"/prof/*.profraw -o "$T/all.profdata" || exit 2
{
  echo "# Coverage of /repo/src by the quick workloads (scale $SCALE) of all 19 monitors - informational"
  echo "# library code as linked into the harness:"
  "$BIN_DIR/llvm-cov" report "$T/target/release/vmon" -instr-profile="$T/all.profdata" --ignore-filename-regex='(\.cargo|rustc|/verif/)' 2>/dev/null | sed 's#/repo/##'
  echo
  echo "# the real binary (process-level monitors):"
  "$BIN_DIR/llvm-cov" report "$T/cli/debug/cteepbd" -instr-profile="$T/all.profdata" --ignore-filename-regex='(\.cargo|rustc|/verif/)' 2>/dev/null | sed 's#/repo/##'
} > "$VERIF/coverage_report.txt"
tail -40 "$VERIF/coverage_report.txt"
