#!/usr/bin/env bash
# Apply a seeded change to /repo's working tree, run the given checks (default: all, quick tier),
# report which ones fire, and undo the change straight afterwards.
# usage: tools/test_mutant.sh <patch.diff> [tier] [Cxx ...]
set -u
cd "$(dirname "${BASH_SOURCE[0]}")/.." || exit 2
# one seeded change at a time: /repo's working tree and /verif/.build are shared
mkdir -p .build; exec 9>.build/mutant.lock; flock 9
patch="$1"; shift
tier="${1:-quick}"; [ $# -gt 0 ] && shift
checks=("$@"); [ ${#checks[@]} -eq 0 ] && checks=(C01 C02 C03 C04 C05 C06 C07 C08 C09 C10 C11 C12 C13 C14 C15 C16 C17 C18 C19)
git -C /repo diff --quiet || { echo "/repo working tree is not clean" >&2; exit 2; }
git -C /repo apply "$patch" || { echo "patch does not apply" >&2; exit 2; }
trap 'git -C /repo checkout -q -- .' EXIT
fired=()
for p in "${checks[@]}"; do
  out=$(./check "$p" "$tier" 2>&1); rc=$?
  n=$(echo "$out" | grep -c '^VIOLATION')
  if [ $rc -eq 1 ]; then fired+=("$p"); echo "FIRED $p: $(echo "$out" | grep -m1 'monitor=' | sed 's/^ *//' | cut -c1-220)";
  elif [ $rc -ne 0 ]; then echo "HARNESS-FAILURE $p (exit $rc): $(echo "$out" | grep -m1 -E 'HARNESS|error' | cut -c1-200)"; fi
done
echo "SUMMARY $(basename "$(dirname "$patch")")/$(basename "$patch") fired: ${fired[*]:-none}"
