#!/usr/bin/env python3
"""Markdown table of the seeded changes under /verif/seeded and the checks that caught them (for DESIGN.md §7)."""
import json, glob, os, re
rows = []
for d in sorted(glob.glob(os.path.join(os.path.dirname(__file__), "..", "seeded", "*"))):
    mp = os.path.join(d, "meta.json")
    if not os.path.exists(mp):
        continue
    m = json.load(open(mp))
    readme = open(os.path.join(d, "README.md")).read() if os.path.exists(os.path.join(d, "README.md")) else ""
    what = m.get("summary") or ""
    if not what:
        # first non-title line of the README
        for l in readme.splitlines():
            l = l.strip()
            if l and not l.startswith("#") and not l.startswith("Property:"):
                what = l
                break
    what = re.sub(r"\s+", " ", what)[:170]
    own = m["breaks_property"]
    fired = m.get("checks_that_fired", [])
    mon = m.get("first_monitor_per_check", {}).get(own, "")
    mon = mon.split(" ")[0] if mon else ""
    st = m.get("status", "")
    status = "obsolete (see meta.json)" if st.startswith("obsolete") else "outside (see meta.json)" if st.startswith("outside") else ("yes" if own in fired else "**NO**")
    rows.append((m["id"], own, status, mon, " ".join(fired), what))
print("| seeded change | property | caught by its own check | first monitor that fired | all quick checks that fired | what the change is |")
print("|---|---|---|---|---|---|")
for r in rows:
    print("| " + " | ".join(r) + " |")
print()
live = [r for r in rows if not r[2].startswith("obsolete") and not r[2].startswith("outside")]
print(f"{len(rows)} seeded changes, {len(live)} of them valid on the current tree; {sum(1 for r in live if r[2]=='yes')} of those caught by the owning property's quick check.")
