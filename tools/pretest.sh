#!/usr/bin/env bash
# quick look: apply a sub-agent change to the development worktree (/tmp/devrepo), run the given checks (default: the owning one)
# usage: tools/pretest.sh Cxx X [checks...]
P="$1"; X="$2"; shift 2
checks=("$@"); [ ${#checks[@]} -eq 0 ] && checks=("$P")
cd /verif
git -C /tmp/devrepo checkout -q -- . ; git -C /tmp/devrepo apply "/tmp/mut/$P/_mutant/$X/patch.diff" || { echo "apply failed"; exit 2; }
for c in "${checks[@]}"; do
  out=$(VERIF_REPO=/tmp/devrepo ./check "$c" quick 2>&1); rc=$?
  echo "$P-$X $c exit=$rc $(echo "$out" | grep -m1 'monitor=' | sed 's/^ *//' | cut -c1-200)"
done
git -C /tmp/devrepo checkout -q -- .
