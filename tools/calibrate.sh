#!/usr/bin/env bash
# Silence check (DESIGN §7.1): every check at several seeds on the unchanged tree; prints only what is not silent.
# usage: tools/calibrate.sh <tier> <seed>...
cd "$(dirname "${BASH_SOURCE[0]}")/.." || exit 2
tier="$1"; shift
for seed in "$@"; do
  for p in C01 C02 C03 C04 C05 C06 C07 C08 C09 C10 C11 C12 C13 C14 C15 C16 C17 C18 C19; do
    out=$(VERIF_SEED=$seed ./check $p $tier 2>&1); rc=$?
    if [ $rc -ne 0 ] || echo "$out" | grep -q '^VIOLATION'; then
      echo "== seed=$seed $p exit=$rc"; echo "$out" | grep -E "VIOLATION|monitor=|HARNESS" | cut -c1-400 | head -6
    fi
  done
  echo "seed $seed done"
done
