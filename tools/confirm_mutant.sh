#!/usr/bin/env bash
# Confirm a seeded change in its scratch worktree: (1) demo passes on clean code, (2) with the patch the
# existing suite is green, (3) with the patch the demo fails. Leaves the worktree clean.
# usage: tools/confirm_mutant.sh <worktree> <A|B>
set -u
W="$1"; X="$2"; M="$W/_mutant/$X"
cd "$W" || exit 2
export CARGO_NET_OFFLINE=true
git checkout -q -- src; rm -f tests/demo_*.rs
name="demo_confirm_$(echo "$X" | tr 'A-Z' 'a-z')"
cp "$M/demo.rs" "tests/$name.rs"
clean=$(cargo test --offline --test "$name" 2>&1 | grep -E "^test result" | head -1)
rm -f "tests/$name.rs"
git apply "$M/patch.diff" || { echo "CONFIRM $W $X: patch does not apply"; exit 1; }
suite=$(cargo test --workspace --no-fail-fast --offline 2>&1 | grep -E "^test result" | sed 's/; 0 ignored.*//' | tr '\n' ' ')
cp "$M/demo.rs" "tests/$name.rs"
mut=$(cargo test --offline --test "$name" 2>&1 | grep -E "^test result" | head -1)
git checkout -q -- src; rm -f "tests/$name.rs"
echo "CONFIRM $W $X"
echo "  demo on clean code : $clean"
echo "  demo with patch    : $mut"
echo "  suite with patch   : $suite"
