#!/usr/bin/env bash
# Confirm a sub-agent's seeded change, run every quick check against it, and file it under /verif/seeded/.
# usage: tools/process_mutant.sh <Cxx> <A|B> [tier]
set -u
P="$1"; X="$2"; TIER="${3:-quick}"
W="/tmp/mut/$P"; M="$W/_mutant/$X"; D="/verif/seeded/$P-$X"
[ -f "$M/patch.diff" ] || { echo "no patch in $M"; exit 2; }
conf=$(/verif/tools/confirm_mutant.sh "$W" "$X" 2>&1 | grep -v WARNING)
echo "$conf"
res=$("${VQ:-/verif}"/tools/test_mutant.sh "$M/patch.diff" "$TIER" 2>&1 | grep -v WARNING)
echo "$res"
mkdir -p "$D"
cp "$M/patch.diff" "$D/patch.diff"; cp "$M/demo.rs" "$D/demo.rs"; cp "$M/README.md" "$D/README.md" 2>/dev/null
python3 - "$P" "$X" "$D" "$TIER" <<PY
import json,sys,re
P,X,D,TIER=sys.argv[1:5]
conf='''$conf'''
res='''$res'''
fired=[l.split()[1].rstrip(':') for l in res.splitlines() if l.startswith('FIRED')]
mons={l.split()[1].rstrip(':'): l.split('monitor=',1)[1][:300] if 'monitor=' in l else '' for l in res.splitlines() if l.startswith('FIRED')}
readme=open(D+'/README.md').read() if __import__('os').path.exists(D+'/README.md') else ''
own=P
mm=re.match(r"Property:\s*(C\d\d)", readme)
if mm: own=mm.group(1)
meta={
 "id": f"{P}-{X}",
 "breaks_property": own,
 "source": "independent sub-agent given only the property text and a scratch worktree",
 "what_it_needs_to_manifest": "see README.md (written by the sub-agent)",
 "confirmed_in_scratch_worktree": {
   "demo_on_clean_code": re.search(r"demo on clean code : (.*)", conf).group(1) if re.search(r"demo on clean code : (.*)", conf) else None,
   "demo_with_patch": re.search(r"demo with patch    : (.*)", conf).group(1) if re.search(r"demo with patch    : (.*)", conf) else None,
   "existing_suite_with_patch": re.search(r"suite with patch   : (.*)", conf).group(1) if re.search(r"suite with patch   : (.*)", conf) else None,
 },
 "checks_run": f"git -C /repo apply patch.diff; ./check <C01..C19> {TIER}; git -C /repo checkout -- . (tools/test_mutant.sh)",
 "checks_that_fired": fired,
 "first_monitor_per_check": mons,
 "detected_by_owning_check": own in fired,
}
json.dump(meta,open(D+'/meta.json','w'),indent=1)
print("FILED",D,"fired:",fired)
PY
