//! Driver interpreted by Miri under several -Zmiri-seed values (thorough tier of C10).
//! Miri derives the SipHash keys of every HashMap / HashSet from its seeded RNG, so each seed gives a
//! *replayable* set of iteration orders for carriers, services, sources and system ids. The driver
//! parses and evaluates a few small multi-system buildings and prints, per case, the orders observed
//! and the results; tools/extra_C10.sh compares the lines across seeds.

use cteepbd::{cte, energy_performance, types::Energy, Components, UserWF};

const CASES: [&str; 3] = [
    // two systems with auxiliaries (one multi-service, heating + cooling), ambient heat on two ids, PV
    "1, CONSUMO, CAL, ELECTRICIDAD, 10, 4\n1, CONSUMO, CAL, EAMBIENTE, 25, 10\n1, CONSUMO, REF, ELECTRICIDAD, 2, 6\n1, SALIDA, CAL, 35, 14\n1, SALIDA, REF, -4, -18\n1, AUX, 1.5, 0.5\n2, CONSUMO, ACS, ELECTRICIDAD, 5, 5\n2, CONSUMO, ACS, EAMBIENTE, 12.5, 12.5\n2, PRODUCCION, EAMBIENTE, 6, 20\n2, AUX, 0.25, 0.25\n3, CONSUMO, ILU, ELECTRICIDAD, 8, 8\n0, PRODUCCION, EL_INSITU, 12, 40\n0, CONSUMO, NEPB, ELECTRICIDAD, 3, 3\nDEMANDA, ACS, 17.5, 17.5\n",
    // cogeneration with two fuels, PV, three other carriers
    "0, CONSUMO, CAL, GASNATURAL, 50, 20\n0, CONSUMO, ACS, BIOMASA, 30, 30\n1, CONSUMO, VEN, ELECTRICIDAD, 20, 20\n2, CONSUMO, ACS, TERMOSOLAR, 6, 9\n0, PRODUCCION, EL_COGEN, 15, 30\n0, CONSUMO, COGEN, GASNATURAL, 30, 50\n0, CONSUMO, COGEN, BIOMASA, 10, 25\n5, PRODUCCION, EL_INSITU, 4, 12\n1, CONSUMO, REF, RED1, 7, 0\n",
    // three multi-service systems with auxiliaries and negative ids
    "-1, CONSUMO, CAL, GASOLEO, 40\n-1, CONSUMO, ACS, GASOLEO, 10\n-1, SALIDA, CAL, 36\n-1, SALIDA, ACS, 8\n-1, AUX, 2\n7, CONSUMO, CAL, ELECTRICIDAD, 9\n7, CONSUMO, REF, ELECTRICIDAD, 3\n7, SALIDA, CAL, 27\n7, SALIDA, REF, -9\n7, AUX, 1\n2147483647, CONSUMO, VEN, ELECTRICIDAD, 2\n2147483647, CONSUMO, ILU, ELECTRICIDAD, 6\n2147483647, SALIDA, VEN, 1\n2147483647, SALIDA, ILU, 3\n2147483647, AUX, 0.5\n",
];

fn main() {
    let fp = cte::wfactors_from_loc("PENINSULA", &cte::CTE_LOCWF_RITE2014, UserWF { red1: None, red2: None }, cte::CTE_USERWF).unwrap();
    for (i, txt) in CASES.iter().enumerate() {
        let comps = match txt.parse::<Components>() {
            Ok(c) => c,
            Err(e) => {
                println!("case {i} outcome=parse_error:{e}");
                continue;
            }
        };
        let aux: Vec<String> = comps
            .data
            .iter()
            .filter_map(|c| match c {
                Energy::Aux(a) => Some(format!("{}:{}:{:?}", a.id, a.service, a.values)),
                _ => None,
            })
            .collect();
        for (k, lm) in [(0.0f32, false), (0.7, true)] {
            match energy_performance(&comps, &fp, k, 10.0, lm) {
                Ok(ep) => {
                    let order: Vec<String> = ep.balance_cr.keys().map(|c| c.to_string()).collect();
                    let mut per_cr: Vec<String> = ep.balance_cr.iter().map(|(c, b)| format!("{}={:?}/{:?}/{:?}", c, b.we.b.ren, b.we.b.nren, b.used.epus_an)).collect();
                    per_cr.sort();
                    println!(
                        "case {i} k={k} lm={lm} outcome=ok order={} aux_order={} totals={:?},{:?},{:?},{:?},{:?},{:?},{:?},{:?} per_carrier={}",
                        order.join(">"),
                        aux.iter().map(|a| a.split(':').take(2).collect::<Vec<_>>().join(":")).collect::<Vec<_>>().join(">"),
                        ep.balance.we.b.ren,
                        ep.balance.we.b.nren,
                        ep.balance.we.b.co2,
                        ep.balance.we.a.nren,
                        ep.rer,
                        ep.rer_nrb,
                        ep.rer_onst,
                        ep.balance.used.epus,
                        per_cr.join(";")
                    );
                }
                Err(e) => println!("case {i} k={k} lm={lm} outcome=error:{e}"),
            }
        }
        let mut aux_sorted = aux.clone();
        aux_sorted.sort();
        println!("case {i} aux_components={}", aux_sorted.join(";"));
    }
}
