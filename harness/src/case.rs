//! A complete evaluation case (building + factor set + numeric options) and the factor-set generator.

use crate::gen::{self, GenOpts};
use crate::rng::Rng;
use crate::spec::*;
use cteepbd::{cte, types::RenNrenCo2, Factors, UserWF};
use serde::{Deserialize, Serialize};
use std::collections::HashSet;

pub const LOCS: [&str; 4] = ["PENINSULA", "BALEARES", "CANARIAS", "CEUTAMELILLA"];

#[derive(Clone, Debug, Serialize, Deserialize, PartialEq)]
pub enum FacChoice {
    Loc { loc: String, red1: Option<[f32; 3]>, red2: Option<[f32; 3]> },
    User { text: String, red1: Option<[f32; 3]>, red2: Option<[f32; 3]> },
}

fn r3(x: &Option<[f32; 3]>) -> Option<RenNrenCo2> {
    x.map(|v| RenNrenCo2::new(v[0], v[1], v[2]))
}

impl FacChoice {
    pub fn user(&self) -> UserWF<Option<RenNrenCo2>> {
        match self {
            FacChoice::Loc { red1, red2, .. } | FacChoice::User { red1, red2, .. } => UserWF { red1: r3(red1), red2: r3(red2) },
        }
    }
    pub fn build(&self) -> Result<Factors, cteepbd::error::EpbdError> {
        match self {
            FacChoice::Loc { loc, .. } => cte::wfactors_from_loc(loc, &cte::CTE_LOCWF_RITE2014, self.user(), cte::CTE_USERWF),
            FacChoice::User { text, .. } => cte::wfactors_from_str(text, self.user(), cte::CTE_USERWF),
        }
    }
    pub fn is_regulatory(&self) -> bool {
        matches!(self, FacChoice::Loc { .. })
    }
    pub fn label(&self) -> String {
        match self {
            FacChoice::Loc { loc, red1, red2 } => format!("loc:{}{}{}", loc, if red1.is_some() { "+red1" } else { "" }, if red2.is_some() { "+red2" } else { "" }),
            FacChoice::User { .. } => "userfile".to_string(),
        }
    }
}

#[derive(Clone, Debug, Serialize, Deserialize, PartialEq)]
pub struct Case {
    pub spec: Spec,
    pub fac: FacChoice,
    pub k: f32,
    pub area: f32,
    pub lm: bool,
    /// seed of the case-local random choices (transformations applied by relational monitors)
    pub sub_seed: u64,
}

impl Case {
    pub fn witness(&self) -> serde_json::Value {
        serde_json::json!({
            "case": self,
            "components_text": self.spec.to_text(),
        })
    }
    pub fn hash(&self) -> u64 {
        let mut h = self.spec.hash();
        h ^= fnv(format!("{:?}|{}|{}|{}", self.fac, self.k, self.area, self.lm).as_bytes()).rotate_left(7);
        h
    }
}

pub fn gen_user_red(r: &mut Rng) -> Option<[f32; 3]> {
    if r.chance(1, 3) {
        if r.chance(1, 8) {
            // a user value that happens to equal the built-in default (or a regulatory value) is still the user's value:
            // it must win over whatever the file says
            return Some(*r.pick(&[[0.0, 1.3, 0.3], [1.0, 0.0, 0.0], [0.0, 1.0, 0.0], [0.0, 0.0, 0.0], [0.0, 0.0, 0.0], [0.0, 0.0, 0.3], [0.0, 0.0, 0.125]]));
        }
        if r.chance(1, 8) {
            // more decimals than the three the text form of a factor keeps, next to a carry (0.9996 -> 1.000)
            let near = |r: &mut Rng| (1 + r.below(2)) as f32 - (1 + r.below(5)) as f32 / 10000.0;
            return Some([near(r), near(r), r.below(6000) as f32 / 10000.0]);
        }
        Some([r.below(2000) as f32 / 1000.0, r.below(2500) as f32 / 1000.0, r.below(600) as f32 / 1000.0])
    } else {
        None
    }
}

pub fn gen_loc(r: &mut Rng) -> FacChoice {
    FacChoice::Loc { loc: r.pick(&LOCS).to_string(), red1: gen_user_red(r), red2: gen_user_red(r) }
}

/// options of the user factor file generator
#[derive(Clone, Debug)]
pub struct FacOpts {
    /// every carrier present (needed so that arbitrary buildings evaluate)
    pub all_carriers: bool,
    /// allow user-supplied factors for cogenerated electricity
    pub cogen_lines: bool,
    pub duplicates: bool,
    pub zeros: bool,
}

impl Default for FacOpts {
    fn default() -> Self {
        FacOpts { all_carriers: true, cogen_lines: true, duplicates: true, zeros: false }
    }
}

/// A user factor file in which step A/B, grid/non-EPB destination and per-source factors all differ,
/// so that a lookup with the wrong step, destination or source changes the result.
pub fn gen_user_file(r: &mut Rng, o: &FacOpts) -> String {
    let mut seen: HashSet<u32> = HashSet::new();
    let mut val = |r: &mut Rng, top: u32| -> f32 {
        if r.chance(1, 25) {
            // four or five decimals, sometimes next to a carry of the 3-decimal text form (1.9996 -> 2.000)
            return if r.chance(1, 2) { (1 + r.below(2)) as f32 - (1 + r.below(5)) as f32 / 10000.0 } else { (1 + r.below(top as u64 * 100)) as f32 / 100000.0 };
        }
        loop {
            let k = 1 + r.below(top as u64) as u32;
            if seen.insert(k) {
                return k as f32 / 1000.0;
            }
        }
    };
    let mut lines: Vec<String> = vec![];
    let mut triple = |r: &mut Rng| -> String {
        if o.zeros && r.chance(1, 12) {
            return "0.0, 0.0, 0.0".to_string();
        }
        if r.chance(1, 15) {
            // only one of the three components is non-zero (e.g. emissions without primary energy)
            let v = val(r, 900);
            return match r.below(3) {
                0 => format!("0, 0, {}", v),
                1 => format!("0, {}, 0", v),
                _ => format!("{}, 0, 0", v),
            };
        }
        format!("{}, {}, {}", val(r, 2500), val(r, 3000), val(r, 900))
    };
    for cr in CARRIERS {
        if cr != "ELECTRICIDAD" && !o.all_carriers && r.chance(1, 3) {
            continue;
        }
        lines.push(format!("{}, RED, SUMINISTRO, A, {}", cr, triple(r)));
    }
    for cr in ["ELECTRICIDAD", "EAMBIENTE", "TERMOSOLAR"] {
        if r.chance(1, 2) {
            lines.push(format!("{}, INSITU, SUMINISTRO, A, {}", cr, triple(r)));
        }
        for dest in ["A_RED", "A_NEPB"] {
            for step in ["A", "B"] {
                if r.chance(3, 5) {
                    lines.push(format!("{}, INSITU, {}, {}, {}", cr, dest, step, triple(r)));
                }
            }
        }
    }
    if o.cogen_lines && r.chance(1, 3) {
        for dest in ["A_RED", "A_NEPB"] {
            for step in ["A", "B"] {
                if r.chance(1, 2) {
                    lines.push(format!("ELECTRICIDAD, COGEN, {}, {}, {}", dest, step, triple(r)));
                }
            }
        }
        if r.chance(1, 3) {
            lines.push(format!("ELECTRICIDAD, COGEN, SUMINISTRO, A, {}", triple(r)));
        }
    }
    if r.chance(1, 6) {
        // well-formed lines nothing ever looks up: grid-source factors with an export destination, a step B supply line
        let cr = *r.pick(&CARRIERS);
        lines.push(format!("{}, RED, {}, {}, {}", cr, *r.pick(&["A_RED", "A_NEPB"]), *r.pick(&["A", "B"]), triple(r)));
        if r.chance(1, 2) {
            lines.push(format!("ELECTRICIDAD, RED, A_RED, B, {}", triple(r)));
        }
    }
    if o.duplicates && r.chance(1, 4) {
        // a later duplicate with other values: the first line must win
        let i = r.usize(lines.len());
        let head: Vec<&str> = lines[i].splitn(5, ',').collect();
        let dup = format!("{},{},{},{}, {}", head[0], head[1], head[2], head[3], triple(r));
        lines.push(dup);
    }
    if r.chance(1, 2) {
        // keep duplicates after their originals: shuffle only the part before them
        let keep = if o.duplicates { lines.len().saturating_sub(1) } else { lines.len() };
        r.shuffle(&mut lines[..keep]);
    }
    let mut s = String::new();
    if r.chance(1, 2) {
        s.push_str("#META CTE_FUENTE: generado\n");
    }
    if r.chance(1, 4) {
        // metadata of the factor set with hostile keys / values (they are written to the XML / JSON documents and to --of)
        let k = *r.pick(&["Nota", "R&D<2030>", "clave \"x\"", "ruta\\dir", "ñandú", "a]]>b"]);
        let v = *r.pick(&["valor", "x < y > z && w", "it's 'quoted'", "&amp; &bogus;", "]]> <![CDATA[", "日本語", "vector, de prueba"]);
        s.push_str(&format!("#META {k}: {v}\n"));
    }
    if r.chance(1, 4) {
        s.push_str("vector, fuente, uso, step, ren, nren, co2\n");
    }
    for (i, l) in lines.iter().enumerate() {
        s.push_str(l);
        if i % 5 == 0 && r.chance(1, 2) {
            // free text: also text that looks like the header line, a metadata line or a data line
            s.push_str(*r.pick(&[" # comentario <&>", " # Factores del vector, según la red peninsular", " # vector, fuente, uso, step, ren, nren, co2", " # #META CTE_FUENTE: otra", " # ELECTRICIDAD, RED, SUMINISTRO, A, 9, 9, 9", " # \"comillas\" y \\barras\\ ñ"]));
        }
        s.push('\n');
        if r.chance(1, 12) {
            s.push_str("# línea de comentario\n\n");
        }
    }
    s
}

pub fn gen_fac(r: &mut Rng, user_prob_pct: u64) -> FacChoice {
    if r.below(100) < user_prob_pct {
        FacChoice::User { text: gen_user_file(r, &FacOpts::default()), red1: gen_user_red(r), red2: gen_user_red(r) }
    } else {
        gen_loc(r)
    }
}

pub fn gen_k(r: &mut Rng) -> f32 {
    match r.below(8) {
        0..=2 => 0.0,
        3..=4 => 1.0,
        5 => 0.001,
        _ => (1 + r.below(99)) as f32 / 100.0,
    }
}

pub fn gen_area(r: &mut Rng) -> f32 {
    match r.below(12) {
        0 => 0.0011,
        1 => 0.5,
        2 => 1.0,
        3 => 100000.0,
        4 => 37.5,
        // areas that are not multiples of 0.01 m2 (small, medium, large)
        5 => *r.pick(&[0.004f32, 0.0123, 2.345, 0.3333]),
        6 => (1000 + r.below(9_000_000)) as f32 / 10000.0,
        7 => (1 + r.below(99_999)) as f32 / 1000.0,
        _ => (11 + r.below(500000)) as f32 / 100.0,
    }
}

pub fn gen_case(r: &mut Rng, o: &GenOpts, user_prob_pct: u64) -> Case {
    let spec = gen::building(r, o);
    Case { spec, fac: gen_fac(r, user_prob_pct), k: gen_k(r), area: gen_area(r), lm: r.chance(1, 3), sub_seed: r.next() }
}
