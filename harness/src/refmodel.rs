//! Independent f64 evaluation of the EN ISO 52000-1 balance (oracle of C02; reused by C01, C03,
//! C09-C14 for cancellation scales).
//!
//! Written from the standard's formulas (2), (9)-(14), (20)-(28), (32)/B.32 and the documented
//! assumptions; it shares no code with balance.rs: it aggregates by scanning the component list
//! once per carrier, keeps everything in BTreeMaps keyed by text, always allocates production by
//! priority (on-site electricity, then cogenerated; every other carrier has a single source) and
//! resolves factors by first-match lookup in the prepared list.
//!
//! Every quantity is a pair (value, scale): the scale is the sum of the magnitudes of the terms
//! that were added or subtracted to form it, so that comparisons with the f32 library can use
//! |got - ref| <= atol + rtol * scale and cancellation widens the band instead of raising alarms.

use crate::norm::{Kind, RComp};
use std::collections::BTreeMap;

#[derive(Clone, Copy, Debug, Default, PartialEq)]
pub struct V {
    pub v: f64,
    pub s: f64,
}

impl V {
    pub fn leaf(v: f64) -> V {
        V { v, s: v.abs() }
    }
    pub const ZERO: V = V { v: 0.0, s: 0.0 };
    pub fn add(self, o: V) -> V {
        V { v: self.v + o.v, s: self.s + o.s }
    }
    pub fn sub(self, o: V) -> V {
        V { v: self.v - o.v, s: self.s + o.s }
    }
    pub fn mul(self, o: V) -> V {
        V { v: self.v * o.v, s: self.s * o.s }
    }
    pub fn scale(self, k: f64) -> V {
        V { v: self.v * k, s: self.s * k.abs() }
    }
    /// quotient; the scale follows first-order error propagation
    pub fn div(self, o: V) -> V {
        let q = self.v / o.v;
        V { v: q, s: (self.s + q.abs() * o.s) / o.v.abs() }
    }
    pub fn min(self, o: V) -> V {
        V { v: self.v.min(o.v), s: self.s.max(o.s) }
    }
    /// numerically zero relative to its own scale
    pub fn is_tiny(self) -> bool {
        self.v.abs() <= 1e-9 * self.s
    }
}

pub fn vsum(v: &[V]) -> V {
    v.iter().fold(V::ZERO, |a, b| a.add(*b))
}

#[derive(Clone, Copy, Debug, Default, PartialEq)]
pub struct R3(pub [V; 3]);
pub const R3N: [&str; 3] = ["ren", "nren", "co2"];
impl R3 {
    pub fn add(self, o: R3) -> R3 {
        R3([self.0[0].add(o.0[0]), self.0[1].add(o.0[1]), self.0[2].add(o.0[2])])
    }
    pub fn sub(self, o: R3) -> R3 {
        R3([self.0[0].sub(o.0[0]), self.0[1].sub(o.0[1]), self.0[2].sub(o.0[2])])
    }
    pub fn mulv(self, x: V) -> R3 {
        R3([self.0[0].mul(x), self.0[1].mul(x), self.0[2].mul(x)])
    }
    pub fn scale(self, k: f64) -> R3 {
        R3([self.0[0].scale(k), self.0[1].scale(k), self.0[2].scale(k)])
    }
    pub fn leaf(f: [f64; 3]) -> R3 {
        R3([V::leaf(f[0]), V::leaf(f[1]), V::leaf(f[2])])
    }
}

/// one weighting factor line, as text keys
#[derive(Clone, Debug, PartialEq)]
pub struct Fac {
    pub cr: String,
    pub src: String,
    pub dest: String,
    pub step: String,
    pub f: [f64; 3],
}

pub fn facs_from(f: &cteepbd::Factors) -> Vec<Fac> {
    f.wdata
        .iter()
        .map(|x| Fac {
            cr: x.carrier.to_string(),
            src: x.source.to_string(),
            dest: x.dest.to_string(),
            step: x.step.to_string(),
            f: [x.ren as f64, x.nren as f64, x.co2 as f64],
        })
        .collect()
}

pub fn find(facs: &[Fac], cr: &str, src: &str, dest: &str, step: &str) -> Option<R3> {
    facs.iter()
        .find(|x| x.cr == cr && x.src == src && x.dest == dest && x.step == step)
        .map(|x| R3::leaf(x.f))
}

/// the parsed components of the library, converted to the neutral representation
pub fn comps_from(c: &cteepbd::Components) -> (usize, Vec<RComp>, BTreeMap<String, Vec<f64>>) {
    use cteepbd::types::Energy;
    let f = |v: &[f32]| -> Vec<f64> { v.iter().map(|x| *x as f64).collect() };
    let mut out = vec![];
    let mut n = 0;
    for e in &c.data {
        let rc = match e {
            Energy::Used(u) => RComp { id: u.id, kind: Kind::Used { srv: u.service.to_string(), cr: u.carrier.to_string() }, v: f(&u.values), generated: false },
            Energy::Prod(p) => RComp { id: p.id, kind: Kind::Prod { src: p.source.to_string() }, v: f(&p.values), generated: false },
            Energy::Aux(a) => RComp { id: a.id, kind: Kind::Aux { srv: a.service.to_string() }, v: f(&a.values), generated: false },
            Energy::Out(o) => RComp { id: o.id, kind: Kind::Out { srv: o.service.to_string() }, v: f(&o.values), generated: false },
        };
        if n == 0 {
            n = rc.v.len();
        }
        out.push(rc);
    }
    let mut needs = BTreeMap::new();
    if let Some(v) = &c.needs.ACS {
        needs.insert("ACS".to_string(), f(v));
    }
    if let Some(v) = &c.needs.CAL {
        needs.insert("CAL".to_string(), f(v));
    }
    if let Some(v) = &c.needs.REF {
        needs.insert("REF".to_string(), f(v));
    }
    (n, out, needs)
}

#[derive(Clone, Debug, PartialEq)]
pub enum RefErr {
    AreaTooSmall,
    CogenWithoutInput,
    MissingFactor(String),
    Lengths,
}

pub type RefOut = BTreeMap<String, V>;

const EPB: [&str; 5] = ["ACS", "CAL", "REF", "VEN", "ILU"];

fn put3(m: &mut RefOut, p: &str, r: R3) {
    for i in 0..3 {
        m.insert(format!("{p}.{}", R3N[i]), r.0[i]);
    }
}
fn putv(m: &mut RefOut, p: &str, v: &[V]) {
    for (i, x) in v.iter().enumerate() {
        m.insert(format!("{p}[{i}]"), *x);
    }
}

pub struct RefInput<'a> {
    pub n: usize,
    pub comps: &'a [RComp],
    pub needs: &'a BTreeMap<String, Vec<f64>>,
    pub facs: &'a [Fac],
    pub k_exp: f64,
    pub area: f64,
    pub lm: bool,
}

/// Evaluate. Paths of the result follow `flat::flatten_ep`.
pub fn evaluate(inp: &RefInput) -> Result<RefOut, RefErr> {
    let n = inp.n;
    if inp.area < 1e-3 {
        return Err(RefErr::AreaTooSmall);
    }
    if inp.comps.iter().any(|c| c.v.len() != n) {
        return Err(RefErr::Lengths);
    }
    let k = inp.k_exp;
    let facs = inp.facs;

    // ---- cogenerated electricity: step A factor = weighted annual input / annual cogenerated electricity
    let mut has_cgn = false;
    let mut cgn_pr = V::ZERO;
    let mut cgn_in: BTreeMap<String, V> = BTreeMap::new();
    for c in inp.comps {
        match &c.kind {
            Kind::Prod { src } if src == "EL_COGEN" => {
                has_cgn = true;
                for x in &c.v {
                    cgn_pr = cgn_pr.add(V::leaf(*x));
                }
            }
            Kind::Used { srv, cr } if srv == "COGEN" => {
                let e = cgn_in.entry(cr.clone()).or_insert(V::ZERO);
                for x in &c.v {
                    *e = e.add(V::leaf(*x));
                }
            }
            _ => {}
        }
    }
    let f_cgn_a: Option<R3> = if has_cgn {
        if cgn_in.is_empty() {
            return Err(RefErr::CogenWithoutInput);
        }
        let mut acc = R3::default();
        for (cr, us) in &cgn_in {
            let fc = find(facs, cr, "RED", "SUMINISTRO", "A").ok_or_else(|| RefErr::MissingFactor(format!("{cr},RED,SUMINISTRO,A")))?;
            if cgn_pr.v > 0.0 {
                acc = acc.add(fc.mulv(us.div(cgn_pr)));
            }
        }
        Some(acc)
    } else {
        None
    };
    if has_cgn {
        // the library also needs the grid electricity factor to derive the step B factors
        find(facs, "ELECTRICIDAD", "RED", "SUMINISTRO", "A").ok_or_else(|| RefErr::MissingFactor("ELECTRICIDAD,RED,SUMINISTRO,A".into()))?;
    }
    let lookup = |cr: &str, src: &str, dest: &str, step: &str| -> Result<R3, RefErr> {
        if let Some(x) = find(facs, cr, src, dest, step) {
            return Ok(x);
        }
        if cr == "ELECTRICIDAD" && src == "COGEN" {
            if let Some(fa) = f_cgn_a {
                return match step {
                    "A" => Ok(fa),
                    _ => find(facs, cr, "RED", "SUMINISTRO", "A").ok_or_else(|| RefErr::MissingFactor("ELECTRICIDAD,RED,SUMINISTRO,A".into())),
                };
            }
        }
        Err(RefErr::MissingFactor(format!("{cr},{src},{dest},{step}")))
    };

    let mut out = RefOut::new();
    out.insert("k_exp".into(), V::leaf(k));
    out.insert("arearef".into(), V::leaf(inp.area));

    // carriers that get a balance: every carrier consumed, produced or used by auxiliaries
    let mut carriers: Vec<String> = vec![];
    for c in inp.comps {
        if let Some(cr) = c.carrier() {
            if !carriers.iter().any(|x| x == cr) {
                carriers.push(cr.to_string());
            }
        }
    }
    carriers.sort();

    // building totals (accumulated over carriers)
    let mut tot: BTreeMap<String, V> = BTreeMap::new();
    let acc = |tot: &mut BTreeMap<String, V>, key: String, x: V| {
        let e = tot.entry(key).or_insert(V::ZERO);
        *e = e.add(x);
    };
    // per-carrier data kept for the perimeter ratios
    let zero_n = vec![V::ZERO; n];
    let mut per_we_b_ren: BTreeMap<String, V> = BTreeMap::new();
    let mut per_del_cgn_ren: BTreeMap<String, V> = BTreeMap::new();
    let mut el_del_onst_ren = V::ZERO;
    let mut el_exp_a_ren = V::ZERO;
    let mut el_exp_pv_an = V::ZERO;
    let mut el_onst_an = V::ZERO;

    for cr in &carriers {
        let p = format!("balance_cr.{cr}");
        let mut epus_t = zero_n.clone();
        let mut nepus_t = zero_n.clone();
        let mut cgn_t = zero_n.clone();
        let mut epus_srv_t: BTreeMap<String, Vec<V>> = BTreeMap::new();
        let mut pr_src_t: BTreeMap<String, Vec<V>> = BTreeMap::new();
        for c in inp.comps {
            if c.carrier() != Some(cr.as_str()) {
                continue;
            }
            let (srv, is_use) = match &c.kind {
                Kind::Used { srv, .. } => (srv.as_str(), true),
                Kind::Aux { srv } => (srv.as_str(), true),
                Kind::Prod { src } => (src.as_str(), false),
                Kind::Out { .. } => continue,
            };
            if !is_use {
                let e = pr_src_t.entry(srv.to_string()).or_insert_with(|| zero_n.clone());
                for t in 0..n {
                    e[t] = e[t].add(V::leaf(c.v[t]));
                }
            } else if EPB.contains(&srv) {
                let e = epus_srv_t.entry(srv.to_string()).or_insert_with(|| zero_n.clone());
                for t in 0..n {
                    e[t] = e[t].add(V::leaf(c.v[t]));
                    epus_t[t] = epus_t[t].add(V::leaf(c.v[t]));
                }
            } else if srv == "COGEN" {
                for t in 0..n {
                    cgn_t[t] = cgn_t[t].add(V::leaf(c.v[t]));
                }
            } else {
                for t in 0..n {
                    nepus_t[t] = nepus_t[t].add(V::leaf(c.v[t]));
                }
            }
        }
        let pr_t: Vec<V> = (0..n).map(|t| pr_src_t.values().fold(V::ZERO, |a, v| a.add(v[t]))).collect();
        // load matching factor, formula (32) with the monthly function of table B.32
        let f_match: Vec<V> = (0..n)
            .map(|t| {
                if !inp.lm || !(epus_t[t].v > 0.0) || !(pr_t[t].v > 0.0) {
                    return V::leaf(1.0);
                }
                let x = pr_t[t].div(epus_t[t]);
                let xi = V::leaf(1.0).div(x);
                let den = x.add(xi);
                den.sub(V::leaf(1.0)).div(den)
            })
            .collect();
        // allocation of production to EPB uses: on-site first, then cogeneration, (10)-(12)
        let mut order: Vec<String> = pr_src_t.keys().cloned().collect();
        order.sort_by_key(|s| match s.as_str() {
            "EL_INSITU" => 0,
            "EL_COGEN" => 1,
            _ => 2,
        });
        let mut left = epus_t.clone();
        let mut used_t = zero_n.clone();
        let mut used_src_t: BTreeMap<String, Vec<V>> = BTreeMap::new();
        for src in &order {
            let pr = &pr_src_t[src];
            let mut u = zero_n.clone();
            for t in 0..n {
                let m = pr[t].min(left[t]);
                left[t] = left[t].sub(m);
                u[t] = m.mul(f_match[t]);
                used_t[t] = used_t[t].add(u[t]);
            }
            used_src_t.insert(src.clone(), u);
        }
        // exported and delivered energy (13), (14)
        let exp_t: Vec<V> = (0..n).map(|t| pr_t[t].sub(used_t[t])).collect();
        let exp_nepus_t: Vec<V> = (0..n).map(|t| exp_t[t].min(nepus_t[t])).collect();
        let exp_grid_t: Vec<V> = (0..n).map(|t| exp_t[t].sub(exp_nepus_t[t])).collect();
        let del_grid_t: Vec<V> = (0..n).map(|t| epus_t[t].sub(used_t[t])).collect();
        let onst_t: Vec<V> = (0..n)
            .map(|t| pr_src_t.iter().filter(|(s, _)| *s != "EL_COGEN").fold(V::ZERO, |a, (_, v)| a.add(v[t])))
            .collect();

        let epus_an = vsum(&epus_t);
        let nepus_an = vsum(&nepus_t);
        let cgn_an = vsum(&cgn_t);
        let pr_an = vsum(&pr_t);
        let used_an = vsum(&used_t);
        let exp_nepus_an = vsum(&exp_nepus_t);
        let exp_grid_an = vsum(&exp_grid_t);
        let exp_an = exp_nepus_an.add(exp_grid_an);
        let del_grid_an = vsum(&del_grid_t);
        let onst_an = vsum(&onst_t);

        putv(&mut out, &format!("{p}.f_match"), &f_match);
        putv(&mut out, &format!("{p}.used.epus_t"), &epus_t);
        out.insert(format!("{p}.used.epus_an"), epus_an);
        for (srv, v) in &epus_srv_t {
            putv(&mut out, &format!("{p}.used.epus_by_srv_t.{srv}"), v);
            out.insert(format!("{p}.used.epus_by_srv_an.{srv}"), vsum(v));
        }
        putv(&mut out, &format!("{p}.used.nepus_t"), &nepus_t);
        out.insert(format!("{p}.used.nepus_an"), nepus_an);
        putv(&mut out, &format!("{p}.used.cgnus_t"), &cgn_t);
        out.insert(format!("{p}.used.cgnus_an"), cgn_an);

        putv(&mut out, &format!("{p}.prod.t"), &pr_t);
        out.insert(format!("{p}.prod.an"), pr_an);
        putv(&mut out, &format!("{p}.prod.epus_t"), &used_t);
        out.insert(format!("{p}.prod.epus_an"), used_an);
        let mut exp_src_an: BTreeMap<String, V> = BTreeMap::new();
        for src in &order {
            let pr = &pr_src_t[src];
            let us = &used_src_t[src];
            putv(&mut out, &format!("{p}.prod.by_src_t.{src}"), pr);
            out.insert(format!("{p}.prod.by_src_an.{src}"), vsum(pr));
            putv(&mut out, &format!("{p}.prod.epus_by_src_t.{src}"), us);
            out.insert(format!("{p}.prod.epus_by_src_an.{src}"), vsum(us));
            let ex: Vec<V> = (0..n).map(|t| pr[t].sub(us[t])).collect();
            putv(&mut out, &format!("{p}.exp.by_src_t.{src}"), &ex);
            let ex_an = vsum(&ex);
            out.insert(format!("{p}.exp.by_src_an.{src}"), ex_an);
            exp_src_an.insert(src.clone(), ex_an);
            // produced energy used by each service: share of the service in the EPB use of the step
            for (srv, es) in &epus_srv_t {
                let v: Vec<V> = (0..n)
                    .map(|t| if epus_t[t].v > 0.0 { us[t].mul(es[t].div(epus_t[t])) } else { V::ZERO })
                    .collect();
                putv(&mut out, &format!("{p}.prod.epus_by_srv_by_src_t.{src}.{srv}"), &v);
                let an = vsum(&v);
                out.insert(format!("{p}.prod.epus_by_srv_by_src_an.{src}.{srv}"), an);
                acc(&mut tot, format!("prod.epus_by_srv_by_src.{src}.{srv}"), an);
            }
            acc(&mut tot, format!("prod.by_src.{src}"), vsum(pr));
            acc(&mut tot, format!("prod.epus_by_src.{src}"), vsum(us));
        }
        putv(&mut out, &format!("{p}.exp.t"), &exp_t);
        out.insert(format!("{p}.exp.an"), exp_an);
        putv(&mut out, &format!("{p}.exp.grid_t"), &exp_grid_t);
        out.insert(format!("{p}.exp.grid_an"), exp_grid_an);
        putv(&mut out, &format!("{p}.exp.nepus_t"), &exp_nepus_t);
        out.insert(format!("{p}.exp.nepus_an"), exp_nepus_an);

        let del_an = del_grid_an.add(onst_an).add(cgn_an);
        out.insert(format!("{p}.del.an"), del_an);
        putv(&mut out, &format!("{p}.del.grid_t"), &del_grid_t);
        out.insert(format!("{p}.del.grid_an"), del_grid_an);
        putv(&mut out, &format!("{p}.del.onst_t"), &onst_t);
        out.insert(format!("{p}.del.onst_an"), onst_an);
        putv(&mut out, &format!("{p}.del.cgn_t"), &cgn_t);
        out.insert(format!("{p}.del.cgn_an"), cgn_an);

        // ---- weighted energy
        let f_grid = lookup(cr, "RED", "SUMINISTRO", "A")?;
        let we_del_grid = f_grid.mulv(del_grid_an);
        let we_del_cgn = if cgn_an.v == 0.0 { R3::default() } else { f_grid.mulv(cgn_an) };
        let we_del_onst = if onst_an.v == 0.0 { R3::default() } else { lookup(cr, "INSITU", "SUMINISTRO", "A")?.mulv(onst_an) };
        let we_del = we_del_grid.add(we_del_onst).add(we_del_cgn);

        // factors averaged by each source's share of the exported energy
        let exporting = exp_an.v != 0.0 && !exp_an.is_tiny();
        let avg = |dest: &str, step: &str| -> Result<R3, RefErr> {
            let mut a = R3::default();
            for (src, e) in &exp_src_an {
                let source = if src == "EL_COGEN" { "COGEN" } else { "INSITU" };
                let share = e.div(exp_an);
                a = a.add(lookup(cr, source, dest, step)?.mulv(share));
            }
            Ok(a)
        };
        // nothing exported to a destination: the terms are zero, but they are zero *up to the rounding of
        // the flows whose difference they are*, so they keep the scale of those flows (factor magnitude <= 3)
        // largest factor magnitude that could weight this carrier's exports (the derived cogeneration factor,
        // fuel per unit of cogenerated electricity, can be far above the regulatory range)
        let mut fmax: f64 = 3.0;
        for x in facs.iter().filter(|x| &x.cr == cr) {
            fmax = fmax.max(x.f.iter().fold(0.0f64, |a, b| a.max(b.abs())));
        }
        if cr == "ELECTRICIDAD" {
            if let Some(fa) = f_cgn_a {
                fmax = fmax.max(fa.0.iter().fold(0.0f64, |a, b| a.max(b.v.abs())));
            }
        }
        let nothing = |q: V| -> R3 {
            let z = V { v: 0.0, s: fmax * q.s };
            R3([z, z, z])
        };
        let (exp_nepus_a, exp_nepus_ab) = if exporting && exp_nepus_an.v != 0.0 && !exp_nepus_an.is_tiny() {
            let a = avg("A_NEPB", "A")?;
            let b = avg("A_NEPB", "B")?;
            (a.mulv(exp_nepus_an), b.sub(a).mulv(exp_nepus_an)) // (24), (27)
        } else {
            (nothing(exp_nepus_an), nothing(exp_nepus_an))
        };
        let (exp_grid_a, exp_grid_ab) = if exporting && exp_grid_an.v != 0.0 && !exp_grid_an.is_tiny() {
            let a = avg("A_RED", "A")?;
            let b = avg("A_RED", "B")?;
            (a.mulv(exp_grid_an), b.sub(a).mulv(exp_grid_an)) // (25), (28)
        } else {
            (nothing(exp_grid_an), nothing(exp_grid_an))
        };
        let exp_a = exp_nepus_a.add(exp_grid_a); // (23)
        let exp_ab = exp_nepus_ab.add(exp_grid_ab); // (26)
        let we_exp = exp_a.add(exp_ab.scale(k)); // (20)
        let we_a = we_del.sub(exp_a); // (2) step A
        let we_b = we_del.sub(we_exp); // (2) step B

        per_we_b_ren.insert(cr.clone(), we_b.0[0]);
        per_del_cgn_ren.insert(cr.clone(), we_del_cgn.0[0]);
        if cr == "ELECTRICIDAD" {
            el_del_onst_ren = we_del_onst.0[0];
            el_exp_a_ren = exp_a.0[0];
            el_exp_pv_an = exp_src_an.get("EL_INSITU").copied().unwrap_or(V::ZERO);
            el_onst_an = onst_an;
        }
        put3(&mut out, &format!("{p}.we.b"), we_b);
        put3(&mut out, &format!("{p}.we.a"), we_a);
        put3(&mut out, &format!("{p}.we.del"), we_del);
        put3(&mut out, &format!("{p}.we.del_grid"), we_del_grid);
        put3(&mut out, &format!("{p}.we.del_onst"), we_del_onst);
        put3(&mut out, &format!("{p}.we.del_cgn"), we_del_cgn);
        put3(&mut out, &format!("{p}.we.exp"), we_exp);
        put3(&mut out, &format!("{p}.we.exp_a"), exp_a);
        put3(&mut out, &format!("{p}.we.exp_nepus_a"), exp_nepus_a);
        put3(&mut out, &format!("{p}.we.exp_grid_a"), exp_grid_a);
        put3(&mut out, &format!("{p}.we.exp_nepus_ab"), exp_nepus_ab);
        put3(&mut out, &format!("{p}.we.exp_grid_ab"), exp_grid_ab);
        put3(&mut out, &format!("{p}.we.exp_ab"), exp_ab);
        // per-service shares by reverse calculation (E.3.6)
        for (srv, es) in &epus_srv_t {
            let es_an = vsum(es);
            let share = if epus_an.v > 0.0 { es_an.div(epus_an) } else { V::ZERO };
            let a = we_a.mulv(share);
            let b = we_b.mulv(share);
            put3(&mut out, &format!("{p}.we.a_by_srv.{srv}"), a);
            put3(&mut out, &format!("{p}.we.b_by_srv.{srv}"), b);
            for i in 0..3 {
                acc(&mut tot, format!("we.a_by_srv.{srv}.{}", R3N[i]), a.0[i]);
                acc(&mut tot, format!("we.b_by_srv.{srv}.{}", R3N[i]), b.0[i]);
            }
            acc(&mut tot, format!("used.epus_by_srv.{srv}"), es_an);
            acc(&mut tot, format!("used.epus_by_cr_by_srv.{srv}.{cr}"), es_an);
        }

        // ---- accumulate building totals
        acc(&mut tot, "used.epus".into(), epus_an);
        acc(&mut tot, "used.nepus".into(), nepus_an);
        acc(&mut tot, "used.cgnus".into(), cgn_an);
        acc(&mut tot, "prod.an".into(), pr_an);
        acc(&mut tot, "del.an".into(), del_an);
        acc(&mut tot, "del.onst".into(), onst_an);
        acc(&mut tot, "del.grid".into(), del_grid_an);
        acc(&mut tot, "exp.an".into(), exp_an);
        acc(&mut tot, "exp.nepus".into(), exp_nepus_an);
        acc(&mut tot, "exp.grid".into(), exp_grid_an);
        for i in 0..3 {
            acc(&mut tot, format!("we.a.{}", R3N[i]), we_a.0[i]);
            acc(&mut tot, format!("we.b.{}", R3N[i]), we_b.0[i]);
            acc(&mut tot, format!("we.del.{}", R3N[i]), we_del.0[i]);
            acc(&mut tot, format!("we.exp_a.{}", R3N[i]), exp_a.0[i]);
            acc(&mut tot, format!("we.exp.{}", R3N[i]), we_exp.0[i]);
        }
        // by-carrier maps (the library lists a carrier only when its amount is non-zero; the comparison
        // treats a key missing on its side as 0)
        acc(&mut tot, format!("prod.by_cr.{cr}"), pr_an);
        acc(&mut tot, format!("del.grid_by_cr.{cr}"), del_grid_an);
        acc(&mut tot, format!("used.epus_by_cr.{cr}"), epus_an);
    }
    // totals that exist even for an empty building
    for key in ["used.epus", "used.nepus", "used.cgnus", "prod.an", "del.an", "del.onst", "del.grid", "exp.an", "exp.nepus", "exp.grid"] {
        tot.entry(key.to_string()).or_insert(V::ZERO);
    }
    for w in ["we.a", "we.b", "we.del", "we.exp_a", "we.exp"] {
        for c in R3N {
            tot.entry(format!("{w}.{c}")).or_insert(V::ZERO);
        }
    }
    for (srv, v) in inp.needs {
        let an = v.iter().fold(V::ZERO, |a, x| a.add(V::leaf(*x)));
        tot.insert(format!("needs.{srv}"), an);
    }
    let area = V::leaf(inp.area);
    for (key, x) in &tot {
        out.insert(format!("balance.{key}"), *x);
        out.insert(format!("balance_m2.{key}"), x.div(area));
    }
    // RER of the whole building
    let ren = tot["we.b.ren"];
    let nren = tot["we.b.nren"];
    let t = ren.add(nren);
    // total exactly zero: reported as 0; zero only up to rounding: any ratio is rounding noise
    let rer = if t.v == 0.0 {
        if t.s == 0.0 {
            V::ZERO
        } else {
            V { v: 0.0, s: f64::INFINITY }
        }
    } else {
        ren.div(t)
    };
    out.insert("rer".into(), rer);
    // Perimeter ratios. They are not defined by the equations C02 lists, so C02 does not compare them;
    // the values below mirror the library's (repaired) definition and only provide the cancellation
    // scale that relational monitors (C04, C08-C11) need for these two fields.
    let nearby = ["BIOMASA", "BIOMASADENSIFICADA", "RED1", "RED2", "EAMBIENTE", "TERMOSOLAR"];
    let onsite = ["EAMBIENTE", "TERMOSOLAR"];
    let sum_over = |sel: &dyn Fn(&str) -> bool, m: &BTreeMap<String, V>| m.iter().filter(|(c, _)| sel(c)).fold(V::ZERO, |a, (_, v)| a.add(*v));
    let ren_nrb_cr = sum_over(&|c| nearby.contains(&c), &per_we_b_ren);
    let ren_onst_cr = sum_over(&|c| onsite.contains(&c), &per_we_b_ren);
    let ren_el_cgn = per_del_cgn_ren.get("ELECTRICIDAD").copied().unwrap_or(V::ZERO);
    let exp_a_onst = if el_onst_an.v > 0.0 { el_exp_pv_an.mul(el_del_onst_ren).div(el_onst_an) } else { V::ZERO };
    let cgn_in = sum_over(&|_| true, &per_del_cgn_ren);
    let cgn_in_nrb = sum_over(&|c| nearby.contains(&c) || c == "ELECTRICIDAD", &per_del_cgn_ren);
    let exp_a_cgn_nrb = if cgn_in.v > 0.0 { el_exp_a_ren.sub(exp_a_onst).mul(cgn_in_nrb).div(cgn_in) } else { V::ZERO };
    let cgn_in_onst = sum_over(&|c| onsite.contains(&c), &per_del_cgn_ren);
    let exp_a_cgn_onst = if cgn_in.v > 0.0 { el_exp_a_ren.sub(exp_a_onst).mul(cgn_in_onst).div(cgn_in) } else { V::ZERO };
    let num_onst = ren_onst_cr.add(el_del_onst_ren).sub(exp_a_onst.add(exp_a_cgn_onst).scale(1.0 - k));
    let num_nrb = ren_nrb_cr.add(el_del_onst_ren).add(ren_el_cgn).sub(exp_a_onst.add(exp_a_cgn_nrb).scale(1.0 - k));
    let ratio = |num: V| -> V {
        if t.v > 0.0 {
            num.div(t)
        } else if t.s == 0.0 {
            V::ZERO
        } else {
            V { v: 0.0, s: f64::INFINITY }
        }
    };
    out.insert("rer_onst".into(), ratio(num_onst));
    out.insert("rer_nrb".into(), ratio(num_nrb));
    Ok(out)
}

/// tolerance parameters (DESIGN §3.3)
#[derive(Clone, Copy, Debug)]
pub struct Tol {
    pub atol: f64,
    pub rtol: f64,
}

impl Tol {
    pub fn for_steps(n: usize) -> Tol {
        Tol { atol: 1e-4, rtol: 2e-5 * (1.0 + n as f64 / 500.0) }
    }
    pub fn ok(&self, got: f64, r: V) -> bool {
        if got.is_nan() || r.v.is_nan() {
            return got.is_nan() && r.v.is_nan();
        }
        (got - r.v).abs() <= self.atol + self.rtol * r.s
    }
    /// normalised discrepancy: 1.0 = at the edge of the band
    pub fn norm(&self, got: f64, r: V) -> f64 {
        (got - r.v).abs() / (self.atol + self.rtol * r.s)
    }
}
