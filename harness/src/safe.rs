//! Panic-catching wrappers around every library entry point the monitors use.

use cteepbd::{error::EpbdError, types::EnergyPerformance, Components, Factors};
use std::any::Any;
use std::panic::{catch_unwind, AssertUnwindSafe};

#[derive(Debug, Clone)]
pub enum Out<T> {
    Ok(T),
    /// typed error: (variant name, message)
    Err(String, String),
    Panic(String),
}

impl<T> Out<T> {
    pub fn class(&self) -> String {
        match self {
            Out::Ok(_) => "ok".into(),
            Out::Err(v, _) => format!("err:{v}"),
            Out::Panic(_) => "panic".into(),
        }
    }
    pub fn is_ok(&self) -> bool {
        matches!(self, Out::Ok(_))
    }
    pub fn is_panic(&self) -> bool {
        matches!(self, Out::Panic(_))
    }
    pub fn ok(self) -> Option<T> {
        match self {
            Out::Ok(x) => Some(x),
            _ => None,
        }
    }
    pub fn describe(&self) -> String {
        match self {
            Out::Ok(_) => "ok".into(),
            Out::Err(v, m) => format!("{v}: {m}"),
            Out::Panic(m) => format!("PANIC: {m}"),
        }
    }
}

pub fn panic_msg(e: &Box<dyn Any + Send>) -> String {
    if let Some(s) = e.downcast_ref::<&str>() {
        s.to_string()
    } else if let Some(s) = e.downcast_ref::<String>() {
        s.clone()
    } else {
        "non-string panic payload".to_string()
    }
}

pub fn variant(e: &EpbdError) -> &'static str {
    match e {
        EpbdError::ParseError(_) => "ParseError",
        EpbdError::WrongInput(_) => "WrongInput",
        EpbdError::MissingFactor(_) => "MissingFactor",
    }
}

pub fn guard<T>(f: impl FnOnce() -> Result<T, EpbdError>) -> Out<T> {
    match catch_unwind(AssertUnwindSafe(f)) {
        Ok(Ok(x)) => Out::Ok(x),
        Ok(Err(e)) => Out::Err(variant(&e).to_string(), e.to_string()),
        Err(p) => Out::Panic(panic_msg(&p)),
    }
}

/// for infallible library calls (formatters, strip)
pub fn guard_plain<T>(f: impl FnOnce() -> T) -> Out<T> {
    match catch_unwind(AssertUnwindSafe(f)) {
        Ok(x) => Out::Ok(x),
        Err(p) => Out::Panic(panic_msg(&p)),
    }
}

pub fn parse_components(text: &str) -> Out<Components> {
    guard(|| text.parse::<Components>())
}

pub fn parse_factors(text: &str) -> Out<Factors> {
    guard(|| text.parse::<Factors>())
}

pub fn eval(c: &Components, f: &Factors, k: f32, area: f32, lm: bool) -> Out<EnergyPerformance> {
    guard(|| cteepbd::energy_performance(c, f, k, area, lm))
}

/// Run `f` in a fresh thread: every HashMap it creates is keyed from new OS randomness, so
/// carriers, services, sources and system ids are iterated in another order.
pub fn fresh_thread<T: Send>(f: impl FnOnce() -> T + Send) -> T {
    std::thread::scope(|s| {
        // thread creation can fail transiently on a loaded machine: retry instead of failing the harness
        let slot = std::sync::Arc::new(std::sync::Mutex::new(Some(f)));
        let mut tries = 0u64;
        loop {
            let sl = slot.clone();
            let res = std::thread::Builder::new().stack_size(16 << 20).spawn_scoped(s, move || {
                let g = sl.lock().unwrap().take().expect("closure available");
                g()
            });
            match res {
                Ok(h) => return h.join().expect("fresh thread must not panic (library calls are guarded)"),
                Err(e) => {
                    tries += 1;
                    if tries > 50 {
                        panic!("cannot spawn thread: {e}");
                    }
                    std::thread::sleep(std::time::Duration::from_millis(20 * tries));
                }
            }
        }
    })
}
