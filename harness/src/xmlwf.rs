//! Small XML 1.0 well-formedness checker (non-validating), enough for documents without DTD:
//! balanced elements, one root, legal names, attributes, comments, CDATA, PIs, entity and character
//! references (the five predefined entities only), no raw '<' or '&' in character data, legal characters.
//! Every 50th document is also given to python's expat (tools/xml_expat.py): both must agree.

#[derive(Debug, Clone, PartialEq)]
pub enum Event {
    Start(String),
    End(String),
    Text(String),
}

fn is_name_start(c: char) -> bool {
    c.is_alphabetic() || c == '_' || c == ':'
}
fn is_name_char(c: char) -> bool {
    is_name_start(c) || c.is_ascii_digit() || c == '-' || c == '.' || c == '\u{b7}' || c.is_numeric()
}
fn legal_char(c: char) -> bool {
    matches!(c, '\t' | '\n' | '\r') || (c >= '\u{20}' && c <= '\u{d7ff}') || (c >= '\u{e000}' && c <= '\u{fffd}') || c >= '\u{10000}'
}

fn decode_ref(s: &str, pos: usize) -> Result<(char, usize), String> {
    // s[pos] == '&'
    let rest = &s[pos + 1..];
    let end = rest.find(';').ok_or_else(|| format!("unterminated reference at byte {pos}"))?;
    let name = &rest[..end];
    let c = match name {
        "amp" => '&',
        "lt" => '<',
        "gt" => '>',
        "apos" => '\'',
        "quot" => '"',
        _ => {
            if let Some(h) = name.strip_prefix("#x") {
                let n = u32::from_str_radix(h, 16).map_err(|_| format!("bad character reference &{name};"))?;
                char::from_u32(n).filter(|c| legal_char(*c)).ok_or_else(|| format!("illegal character reference &{name};"))?
            } else if let Some(d) = name.strip_prefix('#') {
                let n: u32 = d.parse().map_err(|_| format!("bad character reference &{name};"))?;
                char::from_u32(n).filter(|c| legal_char(*c)).ok_or_else(|| format!("illegal character reference &{name};"))?
            } else {
                return Err(format!("undefined entity &{name}; at byte {pos}"));
            }
        }
    };
    Ok((c, pos + 1 + end + 1))
}

/// Ok(events) if `s` is a well-formed XML document, Err(reason) otherwise
pub fn parse(s: &str) -> Result<Vec<Event>, String> {
    let mut ev = vec![];
    let mut stack: Vec<String> = vec![];
    let mut roots = 0;
    let mut text = String::new();
    let b = s.as_bytes();
    let mut i = 0;
    if let Some(c) = s.chars().find(|c| !legal_char(*c)) {
        return Err(format!("illegal character U+{:04X}", c as u32));
    }
    let flush = |text: &mut String, ev: &mut Vec<Event>, depth: usize| -> Result<(), String> {
        if !text.is_empty() {
            if depth == 0 && !text.trim().is_empty() {
                return Err(format!("character data outside the root element: {:?}", text.trim().chars().take(30).collect::<String>()));
            }
            if depth > 0 {
                ev.push(Event::Text(std::mem::take(text)));
            } else {
                text.clear();
            }
        }
        Ok(())
    };
    while i < b.len() {
        match b[i] {
            b'<' => {
                flush(&mut text, &mut ev, stack.len())?;
                if s[i..].starts_with("<!--") {
                    let end = s[i + 4..].find("-->").ok_or("unterminated comment")?;
                    if s[i + 4..i + 4 + end].contains("--") {
                        return Err("'--' inside a comment".into());
                    }
                    i += 4 + end + 3;
                } else if s[i..].starts_with("<![CDATA[") {
                    if stack.is_empty() {
                        return Err("CDATA outside the root element".into());
                    }
                    let end = s[i + 9..].find("]]>").ok_or("unterminated CDATA section")?;
                    ev.push(Event::Text(s[i + 9..i + 9 + end].to_string()));
                    i += 9 + end + 3;
                } else if s[i..].starts_with("<?") {
                    let end = s[i + 2..].find("?>").ok_or("unterminated processing instruction")?;
                    i += 2 + end + 2;
                } else if s[i..].starts_with("<!") {
                    return Err("DTD declarations are not expected in this output".into());
                } else if s[i..].starts_with("</") {
                    let end = s[i..].find('>').ok_or("unterminated end tag")?;
                    let name = s[i + 2..i + end].trim_end();
                    match stack.pop() {
                        Some(open) if open == name => ev.push(Event::End(open)),
                        Some(open) => return Err(format!("end tag </{name}> does not match <{open}>")),
                        None => return Err(format!("end tag </{name}> without start tag")),
                    }
                    i += end + 1;
                } else {
                    let end = s[i..].find('>').ok_or("unterminated start tag")?;
                    let inner = &s[i + 1..i + end];
                    let (inner, empty) = match inner.strip_suffix('/') {
                        Some(x) => (x, true),
                        None => (inner, false),
                    };
                    let name_end = inner.find(|c: char| c.is_whitespace()).unwrap_or(inner.len());
                    let name = &inner[..name_end];
                    let mut cs = name.chars();
                    if !cs.next().map(is_name_start).unwrap_or(false) || !cs.all(is_name_char) {
                        return Err(format!("illegal element name {:?}", name));
                    }
                    // attributes: name="value" pairs
                    let mut rest = inner[name_end..].trim_start();
                    let mut seen: Vec<&str> = vec![];
                    while !rest.is_empty() {
                        let eq = rest.find('=').ok_or_else(|| format!("malformed attribute in <{name}>"))?;
                        let an = rest[..eq].trim();
                        let mut acs = an.chars();
                        if !acs.next().map(is_name_start).unwrap_or(false) || !acs.all(is_name_char) {
                            return Err(format!("illegal attribute name {:?}", an));
                        }
                        if seen.contains(&an) {
                            return Err(format!("duplicate attribute {an}"));
                        }
                        seen.push(an);
                        let after = rest[eq + 1..].trim_start();
                        let q = after.chars().next().filter(|c| *c == '"' || *c == '\'').ok_or("attribute value not quoted")?;
                        let close = after[1..].find(q).ok_or("unterminated attribute value")?;
                        let val = &after[1..1 + close];
                        if val.contains('<') {
                            return Err("'<' in attribute value".into());
                        }
                        let mut k = 0;
                        while let Some(p) = val[k..].find('&') {
                            let (_, next) = decode_ref(val, k + p)?;
                            k = next;
                        }
                        rest = after[1 + close + 1..].trim_start();
                    }
                    if stack.is_empty() {
                        roots += 1;
                        if roots > 1 {
                            return Err("more than one root element".into());
                        }
                    }
                    ev.push(Event::Start(name.to_string()));
                    if empty {
                        ev.push(Event::End(name.to_string()));
                    } else {
                        stack.push(name.to_string());
                    }
                    i += end + 1;
                }
            }
            b'&' => {
                let (c, next) = decode_ref(s, i)?;
                text.push(c);
                i = next;
            }
            _ => {
                // copy one UTF-8 character
                let c = s[i..].chars().next().unwrap();
                if c == '>' && text.ends_with("]]") {
                    return Err("']]>' in character data".into());
                }
                text.push(c);
                i += c.len_utf8();
            }
        }
    }
    flush(&mut text, &mut ev, stack.len())?;
    if let Some(open) = stack.pop() {
        return Err(format!("element <{open}> is never closed"));
    }
    if roots != 1 {
        return Err("no root element".into());
    }
    Ok(ev)
}

/// texts of all elements named `name`, in document order (concatenated character data of the element itself)
pub fn texts_of(ev: &[Event], name: &str) -> Vec<String> {
    let mut out = vec![];
    let mut depth_stack: Vec<(String, String)> = vec![];
    for e in ev {
        match e {
            Event::Start(n) => depth_stack.push((n.clone(), String::new())),
            Event::Text(t) => {
                if let Some(top) = depth_stack.last_mut() {
                    top.1.push_str(t);
                }
            }
            Event::End(_) => {
                if let Some((n, t)) = depth_stack.pop() {
                    if n == name {
                        out.push(t);
                    }
                }
            }
        }
    }
    out
}

pub fn count(ev: &[Event], name: &str) -> usize {
    ev.iter().filter(|e| matches!(e, Event::Start(n) if n == name)).count()
}

/// second opinion: python3's expat. Some(true/false) = verdict, None = python not available
pub fn expat_says_well_formed(verif: &std::path::Path, doc: &str) -> Option<bool> {
    use std::io::Write;
    let script = verif.join("tools").join("xml_expat.py");
    let mut child = std::process::Command::new("python3").arg(script).stdin(std::process::Stdio::piped()).stdout(std::process::Stdio::piped()).stderr(std::process::Stdio::null()).spawn().ok()?;
    child.stdin.take()?.write_all(doc.as_bytes()).ok()?;
    let out = child.wait_with_output().ok()?;
    let s = String::from_utf8_lossy(&out.stdout);
    if s.starts_with("OK") {
        Some(true)
    } else if s.starts_with("ERR") {
        Some(false)
    } else {
        None
    }
}
