//! Regime-directed workload generator for buildings (components files).
//!
//! All amounts are drawn in integer *grid units* and converted at the end:
//!   Dyadic  : unit = 1/8 kWh  -> every f32 sum / difference / min the library performs is exact
//!   Decimal : unit = 0.01 kWh -> realistic two-decimal data, compared with the tolerance model
//! so planted relations (ties, production crossing use, ...) are exactly the planted ones.

use crate::rng::Rng;
use crate::spec::*;

#[derive(Clone, Copy, Debug, PartialEq, Eq)]
pub enum Class {
    Dyadic,
    Decimal,
}

#[derive(Clone, Copy, Debug, PartialEq, Eq)]
pub enum Tri {
    Never,
    Maybe,
    Always,
}

#[derive(Clone, Debug)]
pub struct GenOpts {
    pub class: Option<Class>,
    pub steps: Option<usize>,
    /// allow 365 / 8760-step cases (thorough tier)
    pub long_steps: bool,
    pub cogen: Tri,
    pub pv: Tri,
    pub aux: Tri,
    /// force at least two systems with auxiliaries, one of them multi-service
    pub aux_multi: bool,
    /// allow systems with AUX whose outputs are all zero / absent (parse error expected)
    pub aux_hostile: bool,
    pub nepb: Tri,
    pub neg_out: bool,
    pub demands: Tri,
    pub amb: Tri,
    pub hostile_comments: bool,
    /// every non-zero amount is a multiple of `vmul` grid units (keeps value/m >= 0.01 under subdivision)
    pub vmul: i64,
    /// upper bound of single amounts, in kWh
    pub max: f64,
    /// allow electricity as cogeneration input (physically meaningless, accepted by the parser)
    pub el_cogen_input: bool,
    /// allow the two on-site carriers (ambient heat, solar thermal) as cogeneration input
    pub onsite_cogen_fuel: bool,
    pub meta: bool,
}

impl Default for GenOpts {
    fn default() -> Self {
        GenOpts {
            class: None,
            steps: None,
            long_steps: false,
            cogen: Tri::Maybe,
            pv: Tri::Maybe,
            aux: Tri::Maybe,
            aux_multi: false,
            aux_hostile: false,
            nepb: Tri::Maybe,
            neg_out: true,
            demands: Tri::Maybe,
            amb: Tri::Maybe,
            hostile_comments: false,
            vmul: 1,
            max: 400.0,
            el_cogen_input: true,
            onsite_cogen_fuel: true,
            meta: false,
        }
    }
}

// small ids, negative ids, i32::MAX, and ids that an f32 cannot represent (|id| > 2^24)
// (neighbouring ids beyond 2^24, where f32 cannot tell them apart, and at the i32 limits)
pub const ID_POOL: [i32; 16] = [0, 1, 2, 3, 7, -1, -5, 2147483647, 16777217, -2000000001, 123456789, 16777216, 2147483646, -2000000002, -2147483648, -2147483647];

pub const HOSTILE_COMMENTS: [&str; 17] = [
    // longer than any fixed-size buffer or format width one might think of (320 characters)
    "comentario muy largo: 0123456789 0123456789 0123456789 0123456789 0123456789 0123456789 0123456789 0123456789 0123456789 0123456789 0123456789 0123456789 0123456789 0123456789 0123456789 0123456789 0123456789 0123456789 0123456789 0123456789 0123456789 0123456789 0123456789 0123456789 0123456789 0123456789 0123456789 fin del comentario",
    // the texts the library itself writes on the lines it generates: a declared line carrying one is still a declared line
    "Equilibrado de consumo sin producción declarada",
    "Reasignación automática de consumos auxiliares",
    "caldera <A> & \"B\"",
    "x < y > z && w",
    "it's 'quoted'",
    "back\\slash \\n \\\\",
    "ñandú café €uro ü",
    "日本語のコメント",
    "# dentro # de # comentario",
    "a,b,c, 1.0, 2.0",
    "]]> <![CDATA[ x ]]>",
    "&amp; &lt; &#x41; &bogus;",
    "<!-- comment -->",
    "CTEEPBD_AUX",
    "tab\there",
    "   leading and trailing   ",
];

struct G<'a> {
    r: &'a mut Rng,
    class: Class,
    vmul: i64,
    maxu: i64, // max in grid units / vmul
    n: usize,
}

impl<'a> G<'a> {
    fn unit(&self) -> f64 {
        match self.class {
            Class::Dyadic => 0.125,
            Class::Decimal => 0.01,
        }
    }
    fn conv(&self, u: i64) -> f32 {
        match self.class {
            Class::Dyadic => (u as f64 * 0.125) as f32,
            Class::Decimal => (u as f64 / 100.0) as f32,
        }
    }
    fn convv(&self, v: &[i64]) -> Vec<f32> {
        v.iter().map(|u| self.conv(*u)).collect()
    }
    /// amount in units: multiple of vmul in [vmul, max*frac]
    fn amount(&mut self, frac: f64) -> i64 {
        let top = ((self.maxu as f64 * frac) as i64).max(1);
        // mix of magnitudes: small, medium, full range
        let k = match self.r.below(4) {
            0 => 1 + self.r.below(top.min(16) as u64) as i64,
            1 => 1 + self.r.below(top.min(400) as u64) as i64,
            _ => 1 + self.r.below(top as u64) as i64,
        };
        k * self.vmul
    }
    /// vector of amounts with probability pz/10 of zero at each step
    fn amounts(&mut self, frac: f64, pz: u64) -> Vec<i64> {
        (0..self.n)
            .map(|_| if self.r.chance(pz, 10) { 0 } else { self.amount(frac) })
            .collect()
    }
    /// x times a random factor in [lo, hi), quantised
    fn qr(&mut self, x: i64, lo: f64, hi: f64) -> i64 {
        let f = self.r.range_f(lo, hi);
        self.q(x as f64 * f)
    }
    /// quantise an arbitrary non-negative unit amount to a multiple of vmul
    fn q(&self, x: f64) -> i64 {
        let k = (x / self.vmul as f64).round() as i64;
        k.max(0) * self.vmul
    }
}

fn comment(r: &mut Rng, hostile: bool, tag: &str) -> String {
    if hostile && r.chance(1, 2) {
        r.pick(&HOSTILE_COMMENTS).to_string()
    } else if r.chance(1, 3) {
        tag.to_string()
    } else {
        String::new()
    }
}

/// Electricity regimes of property C12, planted per step
#[derive(Clone, Copy, Debug, PartialEq, Eq)]
enum Regime {
    PvCovers,  // PV >= use
    ChpCovers, // PV < use <= PV + CHP
    Deficit,   // use > PV + CHP
    NoProd,    // zero production
    NoUse,     // zero use
}

pub fn building(r: &mut Rng, o: &GenOpts) -> Spec {
    if o.steps.is_none() && r.chance(1, 6) {
        return loose(r, o);
    }
    let class = o.class.unwrap_or(if r.chance(1, 2) { Class::Dyadic } else { Class::Decimal });
    let n = o.steps.unwrap_or_else(|| {
        if o.long_steps && r.chance(1, 40) {
            *r.pick(&[365usize, 8760])
        } else if r.chance(1, 25) {
            // lengths that are no multiple of the usual block sizes (weeks, days of a month, primes)
            *r.pick(&[5usize, 7, 13, 25, 31, 48, 52, 53, 73, 100])
        } else {
            *r.pick(&[1usize, 1, 2, 3, 4, 12, 12, 12, 24])
        }
    });
    let unit = match class {
        Class::Dyadic => 0.125,
        Class::Decimal => 0.01,
    };
    // keep dyadic sums exactly representable: per-step amounts <= 1024 kWh, and fewer for long series
    let max = match class {
        Class::Dyadic => o.max.min(if n > 100 { 64.0 } else { 1024.0 }),
        Class::Decimal => {
            if r.chance(1, 8) {
                o.max * 100.0
            } else {
                o.max
            }
        }
    };
    let vmul = o.vmul.max(1);
    let maxu = ((max / unit) as i64 / vmul).max(4);
    let mut g = G { r, class, vmul, maxu, n };

    let want_cogen = match o.cogen {
        Tri::Never => false,
        Tri::Always => true,
        Tri::Maybe => g.r.chance(3, 10),
    };
    let want_pv = match o.pv {
        Tri::Never => false,
        Tri::Always => true,
        Tri::Maybe => g.r.chance(6, 10),
    };
    let want_aux = match o.aux {
        Tri::Never => false,
        Tri::Always => true,
        Tri::Maybe => g.r.chance(4, 10),
    } || o.aux_multi;
    let want_nepb = match o.nepb {
        Tri::Never => false,
        Tri::Always => true,
        Tri::Maybe => g.r.chance(4, 10),
    };
    let want_amb = match o.amb {
        Tri::Never => false,
        Tri::Always => true,
        Tri::Maybe => g.r.chance(6, 10),
    };

    // regimes per step
    let regimes: Vec<Regime> = {
        let all = [Regime::PvCovers, Regime::ChpCovers, Regime::Deficit, Regime::NoProd, Regime::NoUse];
        let mut v: Vec<Regime> = (0..n)
            .map(|_| match g.r.below(16) {
                0..=4 => Regime::PvCovers,
                5..=8 => Regime::ChpCovers,
                9..=12 => Regime::Deficit,
                13..=14 => Regime::NoProd,
                _ => Regime::NoUse,
            })
            .collect();
        if n >= 5 && g.r.chance(1, 2) {
            // plant every regime once
            let pos = g.r.perm(n);
            for (k, reg) in all.iter().enumerate() {
                v[pos[k]] = *reg;
            }
        }
        v
    };

    // lines in units
    struct L {
        line: Line,
        u: Vec<i64>,
    }
    let mut ls: Vec<L> = vec![];
    let mk_used = |id: i32, srv: &str, cr: &str, comment: String| Line::Used { id, srv: srv.into(), cr: cr.into(), v: vec![], comment };

    // ---- systems
    let nsys = 1 + g.r.usize(if o.aux_multi { 3 } else { 4 });
    let nsys = if o.aux_multi { nsys.max(2) } else { nsys };
    let mut ids: Vec<i32> = vec![];
    let mut pool: Vec<i32> = ID_POOL.to_vec();
    g.r.shuffle(&mut pool);
    // small positive ids are by far the most common in practice: bias towards them
    if g.r.chance(2, 3) {
        pool.sort_by_key(|x| (*x < 0 || *x > 7) as u8);
    }
    for k in 0..nsys {
        if k > 0 && g.r.chance(1, 10) {
            ids.push(ids[g.r.usize(k)]); // repeated id: two "systems" declared under one id
        } else {
            ids.push(pool[k]);
        }
    }
    let mut aux_sys = 0usize;
    let mut aux_multi_done = false;
    for (k, &id) in ids.iter().enumerate() {
        let nsrv = if o.aux_multi && k == 0 { 2 + g.r.usize(2) } else { 1 + g.r.usize(3) };
        let mut srvs: Vec<&'static str> = vec![];
        let mut tries = 0;
        while srvs.len() < nsrv && tries < 20 {
            tries += 1;
            let s = *g.r.pick(&["ACS", "ACS", "CAL", "CAL", "REF", "VEN", "ILU"]);
            if !srvs.contains(&s) {
                srvs.push(s);
            }
        }
        for s in &srvs {
            let pz = g.r.below(4);
            let thermal = *s == "ACS" || *s == "CAL" || *s == "REF";
            let kind = if !thermal { 0 } else { g.r.below(10) };
            let cm = comment(g.r, o.hostile_comments, "equipo");
            match kind {
                0..=2 => {
                    // direct electric
                    let u = g.amounts(0.25, pz);
                    ls.push(L { line: mk_used(id, s, "ELECTRICIDAD", cm), u });
                }
                3..=4 if want_amb => {
                    // heat pump: electricity + ambient heat (sometimes tagged as low-SCOP for the DHW indicator)
                    let cm = if *s == "ACS" && g.r.chance(1, 6) { "CTEEPBD_EXCLUYE_SCOP_ACS".to_string() } else { cm };
                    let u = g.amounts(0.25, pz);
                    let amb: Vec<i64> = u.iter().map(|x| if *x > 0 { g.qr(*x, 1.0, 3.5).max(g.vmul) } else { 0 }).collect();
                    ls.push(L { line: mk_used(id, s, "ELECTRICIDAD", cm.clone()), u });
                    ls.push(L { line: mk_used(id, s, "EAMBIENTE", cm), u: amb });
                }
                5 if want_amb => {
                    // solar thermal + backup fuel
                    let u = g.amounts(0.5, pz);
                    let fuel = *g.r.pick(&FUELS);
                    let b = g.amounts(0.5, pz);
                    ls.push(L { line: mk_used(id, s, "TERMOSOLAR", cm.clone()), u });
                    ls.push(L { line: mk_used(id, s, fuel, cm), u: b });
                }
                6 if want_amb => {
                    let cr = *g.r.pick(&["EAMBIENTE", "TERMOSOLAR"]);
                    let u = g.amounts(0.5, pz);
                    ls.push(L { line: mk_used(id, s, cr, cm), u });
                }
                _ => {
                    let fuel = *g.r.pick(&FUELS);
                    let u = g.amounts(0.75, pz);
                    ls.push(L { line: mk_used(id, s, fuel, cm), u });
                }
            }
            if g.r.chance(1, 6) {
                // a second line with the same or a different carrier for the same service
                let cr = *g.r.pick(&["ELECTRICIDAD", "GASNATURAL", "EAMBIENTE", "BIOMASA"]);
                if want_amb || cr != "EAMBIENTE" {
                    let u = g.amounts(0.1, 3);
                    ls.push(L { line: mk_used(id, s, cr, String::new()), u });
                }
            }
        }
        // declared EAMBIENTE / TERMOSOLAR production for this id: none / partial / exact / surplus / foreign id
        for cr in ["EAMBIENTE", "TERMOSOLAR"] {
            let mut use_t = vec![0i64; n];
            let mut any = false;
            for l in &ls {
                if let Line::Used { id: lid, cr: lcr, .. } = &l.line {
                    if *lid == id && lcr == cr {
                        any = true;
                        for t in 0..n {
                            use_t[t] += l.u[t];
                        }
                    }
                }
            }
            if !any {
                continue;
            }
            let scen = g.r.below(10);
            let pid = if g.r.chance(1, 6) { *g.r.pick(&ID_POOL) } else { id };
            let scen = if g.r.chance(1, 8) { 10 + g.r.below(4) } else { scen };
            let u: Option<Vec<i64>> = match scen {
                // exactly a half / a quarter / three quarters of the use at every step
                10 => Some(use_t.iter().map(|x| (x / (2 * g.vmul)) * g.vmul).collect()),
                11 => Some(use_t.iter().map(|x| (x / (4 * g.vmul)) * g.vmul).collect()),
                12 => Some(use_t.iter().map(|x| (3 * x / (4 * g.vmul)) * g.vmul).collect()),
                // the use profile shifted by one step: the same annual total (exactly, in the dyadic class), surplus at
                // some steps and a shortfall of the same size at others
                13 => Some((0..use_t.len()).map(|t| use_t[(t + 1) % use_t.len()]).collect()),
                0..=3 => None,                                                                  // nothing declared
                4 => Some(use_t.clone()),                                                       // exact
                5..=6 => Some(use_t.iter().map(|x| g.qr(*x, 0.0, 1.0)).collect()), // partial
                7 => Some(use_t.iter().map(|x| x + g.amount(0.2) * g.r.below(2) as i64).collect()),    // surplus at some steps
                _ => Some(g.amounts(0.6, 3)),                                                   // unrelated profile: partial and surplus mixed
            };
            if let Some(u) = u {
                if g.r.chance(1, 4) {
                    // split the declaration over two lines
                    let a: Vec<i64> = u.iter().map(|x| g.q(*x as f64 * 0.5)).collect();
                    let b: Vec<i64> = u.iter().zip(a.iter()).map(|(x, y)| x - y).collect();
                    ls.push(L { line: Line::Prod { id: pid, src: cr.into(), v: vec![], comment: String::new() }, u: a });
                    ls.push(L { line: Line::Prod { id: pid, src: cr.into(), v: vec![], comment: String::new() }, u: b });
                } else {
                    ls.push(L { line: Line::Prod { id: pid, src: cr.into(), v: vec![], comment: comment(g.r, o.hostile_comments, "declarada") }, u });
                }
            }
        }
        // auxiliaries and outputs
        let sys_aux = want_aux && (g.r.chance(2, 3) || (o.aux_multi && k < 2));
        let multi = srvs.len() > 1;
        let mut out_done = false;
        if sys_aux {
            aux_sys += 1;
            if multi {
                aux_multi_done = true;
            }
            let hostile_here = o.aux_hostile && g.r.chance(1, 6);
            if (multi && !hostile_here) || g.r.chance(1, 2) {
                out_done = true;
                let pz = g.r.below(5);
                let mut any_nonzero = false;
                let mut outs: Vec<L> = vec![];
                for s in &srvs {
                    if !(*s == "ACS" || *s == "CAL" || *s == "REF" || g.r.chance(1, 2)) && srvs.len() > 1 {
                        // VEN / ILU often have no output declared
                        if g.r.chance(1, 2) {
                            continue;
                        }
                    }
                    let mut u = g.amounts(0.75, pz);
                    if u.iter().any(|x| *x != 0) {
                        any_nonzero = true;
                    }
                    if o.neg_out && *s == "REF" && g.r.chance(3, 4) {
                        u.iter_mut().for_each(|x| *x = -*x);
                    }
                    outs.push(L { line: Line::Out { id, srv: s.to_string(), v: vec![], comment: comment(g.r, o.hostile_comments, "salida") }, u });
                    if g.r.chance(1, 8) {
                        let u2 = g.amounts(0.2, 3);
                        outs.push(L { line: Line::Out { id, srv: s.to_string(), v: vec![], comment: String::new() }, u: u2 });
                    }
                }
                if multi && g.r.chance(1, 5) {
                    // delivered energy for a service this system has no consumption line for (free cooling, recovered
                    // heat): the auxiliaries are shared among the services the system *delivers* energy for
                    if let Some(s) = ["REF", "ACS", "CAL"].iter().find(|s| !srvs.iter().any(|x| x == *s)) {
                        let mut u = g.amounts(0.75, 1);
                        if u.iter().any(|x| *x != 0) {
                            any_nonzero = true;
                        }
                        if o.neg_out && *s == "REF" && g.r.chance(3, 4) {
                            u.iter_mut().for_each(|x| *x = -*x);
                        }
                        outs.push(L { line: Line::Out { id, srv: s.to_string(), v: vec![], comment: String::new() }, u });
                    }
                }
                if multi && !hostile_here && !any_nonzero {
                    // make sure the split is defined
                    if let Some(first) = outs.first_mut() {
                        let t = g.r.usize(n);
                        first.u[t] = g.amount(0.5) * if first.u.iter().any(|x| *x < 0) { -1 } else { 1 };
                    } else {
                        let u: Vec<i64> = (0..n).map(|_| g.amount(0.5)).collect();
                        outs.push(L { line: Line::Out { id, srv: srvs[0].to_string(), v: vec![], comment: String::new() }, u });
                    }
                }
                ls.extend(outs);
            }
            let pz = g.r.below(5);
            let u = g.amounts(0.03, pz);
            ls.push(L { line: Line::Aux { id, v: vec![], comment: comment(g.r, o.hostile_comments, "auxiliares") }, u });
            if g.r.chance(1, 3) {
                let u = g.amounts(0.02, 3);
                ls.push(L { line: Line::Aux { id, v: vec![], comment: String::new() }, u });
            }
        }
        if !out_done && g.r.chance(1, 4) {
            for s in &srvs {
                let mut u = g.amounts(0.75, 2);
                if o.neg_out && *s == "REF" && g.r.chance(3, 4) {
                    u.iter_mut().for_each(|x| *x = -*x);
                }
                ls.push(L { line: Line::Out { id, srv: s.to_string(), v: vec![], comment: String::new() }, u });
            }
        }
    }
    let _ = (aux_sys, aux_multi_done);
    // a system declared only through its outputs and auxiliaries (e.g. a distribution circuit): no CONSUMO lines
    if want_aux && g.r.chance(1, 5) {
        let id = pool[nsys.min(pool.len() - 1)];
        if !ids.contains(&id) {
            let nsrv = 1 + g.r.usize(2);
            let mut srvs: Vec<&'static str> = vec![];
            while srvs.len() < nsrv {
                let s = *g.r.pick(&["ACS", "CAL", "REF"]);
                if !srvs.contains(&s) {
                    srvs.push(s);
                }
            }
            for s in &srvs {
                let mut u: Vec<i64> = (0..n).map(|_| g.amount(0.5)).collect();
                if o.neg_out && *s == "REF" {
                    u.iter_mut().for_each(|x| *x = -*x);
                }
                ls.push(L { line: Line::Out { id, srv: s.to_string(), v: vec![], comment: String::new() }, u });
            }
            let u = g.amounts(0.03, 2);
            ls.push(L { line: Line::Aux { id, v: vec![], comment: comment(g.r, o.hostile_comments, "circuito") }, u });
        }
    }

    // ---- zero-use steps: electricity EPB uses and auxiliaries vanish
    for t in 0..n {
        if regimes[t] == Regime::NoUse {
            for l in ls.iter_mut() {
                let is_el_epb = match &l.line {
                    Line::Used { cr, srv, .. } => cr == "ELECTRICIDAD" && EPB.contains(&srv.as_str()),
                    Line::Aux { .. } => true,
                    _ => false,
                };
                if is_el_epb {
                    l.u[t] = 0;
                }
            }
        }
    }
    let mut use_el = vec![0i64; n];
    for l in &ls {
        let is_el_epb = match &l.line {
            Line::Used { cr, srv, .. } => cr == "ELECTRICIDAD" && EPB.contains(&srv.as_str()),
            Line::Aux { .. } => true,
            _ => false,
        };
        if is_el_epb {
            for t in 0..n {
                use_el[t] += l.u[t];
            }
        }
    }

    // ---- on-site and cogenerated electricity planted by regime
    if want_pv || want_cogen {
        let mut pv = vec![0i64; n];
        let mut chp = vec![0i64; n];
        for t in 0..n {
            let u = use_el[t];
            let reg = if u == 0 && regimes[t] != Regime::NoProd { Regime::NoUse } else { regimes[t] };
            match reg {
                Regime::PvCovers => {
                    if want_pv {
                        pv[t] = match g.r.below(4) {
                            0 => u, // tie
                            1 => u + g.vmul,
                            _ => u + g.amount(0.5),
                        };
                        if want_cogen && g.r.chance(1, 2) {
                            chp[t] = g.amount(0.3);
                        }
                    } else {
                        // only cogeneration: let it cover the use
                        chp[t] = u + if g.r.chance(1, 3) { 0 } else { g.amount(0.3) };
                    }
                }
                Regime::ChpCovers => {
                    let p = if want_pv { g.qr(u, 0.0, 1.0).min(u - g.vmul).max(0) } else { 0 };
                    pv[t] = p;
                    if want_cogen {
                        chp[t] = (u - p) + if g.r.chance(1, 3) { 0 } else { g.amount(0.3) };
                    }
                }
                Regime::Deficit => {
                    let p = if want_pv { g.qr(u, 0.0, 0.8).min(u - g.vmul).max(0) } else { 0 };
                    pv[t] = p;
                    if want_cogen {
                        let rest = u - p;
                        chp[t] = g.qr(rest, 0.0, 0.95).min(rest - g.vmul).max(0);
                    }
                }
                Regime::NoProd => {}
                Regime::NoUse => {
                    if want_pv && g.r.chance(2, 3) {
                        pv[t] = g.amount(0.3);
                    }
                    if want_cogen && g.r.chance(1, 2) {
                        chp[t] = g.amount(0.3);
                    }
                }
            }
        }
        if want_pv {
            let pid = if g.r.chance(1, 2) { *g.r.pick(&ID_POOL) } else { ids[0] };
            if g.r.chance(1, 4) {
                let a: Vec<i64> = pv.iter().map(|x| g.qr(*x, 0.0, 1.0).min(*x)).collect();
                let b: Vec<i64> = pv.iter().zip(a.iter()).map(|(x, y)| x - y).collect();
                let pid2 = *g.r.pick(&ID_POOL);
                ls.push(L { line: Line::Prod { id: pid, src: "EL_INSITU".into(), v: vec![], comment: comment(g.r, o.hostile_comments, "PV") }, u: a });
                ls.push(L { line: Line::Prod { id: pid2, src: "EL_INSITU".into(), v: vec![], comment: String::new() }, u: b });
            } else {
                ls.push(L { line: Line::Prod { id: pid, src: "EL_INSITU".into(), v: vec![], comment: comment(g.r, o.hostile_comments, "PV") }, u: pv });
            }
        }
        if want_cogen {
            let cid = if g.r.chance(1, 2) { 0 } else { *g.r.pick(&ID_POOL) };
            if g.r.chance(1, 12) {
                // fuel declared as cogeneration input but no cogenerated electricity declared at all (it is all sold
                // outside the assessment, or simply missing): the fuel is still delivered energy and is weighted
            } else if g.r.chance(1, 4) {
                // two cogeneration units (possibly on different systems): their production adds up
                let a: Vec<i64> = chp.iter().map(|x| g.qr(*x, 0.0, 1.0).min(*x)).collect();
                let b: Vec<i64> = chp.iter().zip(a.iter()).map(|(x, y)| x - y).collect();
                let cid2 = if g.r.chance(1, 2) { cid } else { *g.r.pick(&ID_POOL) };
                ls.push(L { line: Line::Prod { id: cid, src: "EL_COGEN".into(), v: vec![], comment: comment(g.r, o.hostile_comments, "cogeneración") }, u: a });
                ls.push(L { line: Line::Prod { id: cid2, src: "EL_COGEN".into(), v: vec![], comment: String::new() }, u: b });
            } else {
                ls.push(L { line: Line::Prod { id: cid, src: "EL_COGEN".into(), v: vec![], comment: comment(g.r, o.hostile_comments, "cogeneración") }, u: chp.clone() });
            }
            // fuel input: proportional with noise, or unrelated profile (fuel without electricity and vice versa)
            let nf = match g.r.below(12) {
                0..=6 => 1,
                7..=9 => 2,
                _ => 3,
            };
            for k in 0..nf {
                let fuel = if o.el_cogen_input && g.r.chance(1, 10) {
                    "ELECTRICIDAD"
                } else if o.onsite_cogen_fuel && g.r.chance(1, 4) {
                    *g.r.pick(&ONSITE)
                } else {
                    *g.r.pick(&FUELS)
                };
                let u: Vec<i64> = if g.r.chance(2, 3) {
                    chp.iter().map(|x| if *x > 0 { g.qr(*x, 1.0, 3.0).max(g.vmul) } else if g.r.chance(1, 5) { g.amount(0.2) } else { 0 }).collect()
                } else {
                    g.amounts(0.8, 3)
                };
                let mut u = u;
                if k == 0 && u.iter().all(|x| *x == 0) {
                    u[0] = g.amount(0.5);
                }
                ls.push(L { line: mk_used(cid, "COGEN", fuel, String::new()), u });
            }
            let thermal = g.r.chance(1, 3);
            if thermal {
                // thermal part of the cogenerator serving heating / DHW
                let fuel = *g.r.pick(&FUELS);
                let u = g.amounts(0.5, 2);
                ls.push(L { line: mk_used(cid, *g.r.pick(&["CAL", "ACS"]), fuel, String::new()), u });
            }
            if want_aux && !ids.contains(&cid) && (thermal || o.aux_hostile) && g.r.chance(1, 3) {
                // auxiliaries of the cogenerator itself (a system whose other lines are COGEN input and production)
                let u = g.amounts(0.02, 2);
                ls.push(L { line: Line::Aux { id: cid, v: vec![], comment: String::new() }, u });
            }
        }
    }

    // ---- non-EPB uses
    if want_nepb {
        let pz = g.r.below(5);
        let u = g.amounts(0.3, pz);
        ls.push(L { line: mk_used(*g.r.pick(&[0, 0, 1, 9]), "NEPB", "ELECTRICIDAD", comment(g.r, o.hostile_comments, "no EPB")), u });
        if g.r.chance(1, 3) {
            let cr = if want_amb { *g.r.pick(&["GASNATURAL", "EAMBIENTE", "TERMOSOLAR", "BIOMASA"]) } else { *g.r.pick(&["GASNATURAL", "BIOMASA"]) };
            let u = g.amounts(0.3, 3);
            ls.push(L { line: mk_used(0, "NEPB", cr, String::new()), u });
        }
    } else if matches!(o.nepb, Tri::Maybe) && want_amb && g.r.chance(1, 10) {
        let u = g.amounts(0.3, 3);
        ls.push(L { line: mk_used(0, "NEPB", *g.r.pick(&["EAMBIENTE", "TERMOSOLAR"]), String::new()), u });
    }

    // ---- building needs
    let want_dem = match o.demands {
        Tri::Never => false,
        Tri::Always => true,
        Tri::Maybe => g.r.chance(1, 3),
    };
    if want_dem {
        for s in ["ACS", "CAL", "REF"] {
            if g.r.chance(1, 2) || (s == "ACS" && o.demands == Tri::Always) {
                let u = g.amounts(0.8, 1);
                ls.push(L { line: Line::Need { srv: s.into(), v: vec![] }, u });
                if g.r.chance(1, 5) {
                    let u = g.amounts(0.2, 2);
                    ls.push(L { line: Line::Need { srv: s.into(), v: vec![] }, u });
                }
            }
        }
    }

    // at least one consumption line
    if !ls.iter().any(|l| matches!(l.line, Line::Used { .. })) {
        let u = g.amounts(0.3, 0);
        ls.push(L { line: mk_used(0, "ILU", "ELECTRICIDAD", String::new()), u });
    }

    if g.r.chance(1, 2) {
        g.r.shuffle(&mut ls);
    }
    let lines: Vec<Line> = ls
        .into_iter()
        .map(|l| {
            let mut line = l.line;
            *line.values_mut() = g.convv(&l.u);
            line
        })
        .collect();
    let mut lines = lines;
    if n > 1 && g.r.chance(1, 6) {
        // a demand declared as one annual value next to multi-step components (accepted: only its sum is used)
        for s in ["ACS", "CAL", "REF"] {
            if g.r.chance(2, 3) {
                for l in lines.iter_mut() {
                    if let Line::Need { srv, v } = l {
                        if srv == s {
                            let t: f64 = v.iter().map(|x| *x as f64).sum();
                            *v = vec![((t * 100.0).round() / 100.0) as f32];
                        }
                    }
                }
            }
        }
    }
    let mut meta = vec![];
    if o.meta && g.r.chance(1, 2) {
        meta.push(("CTE_AREAREF".to_string(), format!("{:.2}", 10.0 + g.r.below(50000) as f64 / 100.0)));
        if g.r.chance(1, 2) {
            meta.push(("CTE_LOCALIZACION".to_string(), g.r.pick(&["PENINSULA", "CANARIAS", "BALEARES", "CEUTAMELILLA"]).to_string()));
        }
        if o.hostile_comments && g.r.chance(1, 2) {
            meta.push(("Nombre <proyecto> & \"co\"".to_string(), g.r.pick(&HOSTILE_COMMENTS).trim().to_string()));
        }
        if g.r.chance(1, 4) {
            // the same key on two lines with different values (both are kept; readers use the first)
            let k = *g.r.pick(&["CTE_AREAREF", "Nota", "CTE_FUENTE"]);
            meta.push((k.to_string(), format!("{}", 1 + g.r.below(900))));
            if k != "CTE_AREAREF" {
                meta.push((k.to_string(), format!("otra {}", g.r.below(90))));
            }
        }
        if g.r.chance(1, 6) {
            // keys older versions of the program or its manual gave a meaning to: today they are plain metadata
            let k = *g.r.pick(&["CTE_ACS_DEMANDA_ANUAL", "CTE_DEMANDA_ACS_PCT_BIOMASA", "CTE_PERIMETRO", "CTE_COGEN"]);
            let v = format!("{}", 10 + g.r.below(5000));
            meta.push((k.to_string(), v));
        }
    }
    Spec { n, meta, lines }
}

/// Unstructured generator (port of the phase-1 prototype): any line kind with any tags, loosely related
pub fn loose(r: &mut Rng, o: &GenOpts) -> Spec {
    let class = o.class.unwrap_or(if r.chance(1, 2) { Class::Dyadic } else { Class::Decimal });
    let n = o.steps.unwrap_or(*r.pick(&[1usize, 1, 2, 3, 4, 12, 12]));
    let vmul = o.vmul.max(1);
    let unit = match class {
        Class::Dyadic => 0.125,
        Class::Decimal => 0.01,
    };
    let maxu = ((o.max.min(1024.0) / unit) as i64 / vmul).max(4);
    let mut g = G { r, class, vmul, maxu, n };
    let mut lines: Vec<Line> = vec![];
    let idpool = [0i32, 1, 2, 3, -1, 7];
    let nsys = 1 + g.r.usize(3);
    let mut used_ids: Vec<i32> = vec![];
    let allow_aux = o.aux != Tri::Never;
    let allow_cogen = o.cogen != Tri::Never;
    let allow_amb = o.amb != Tri::Never;
    fn push_line(lines: &mut Vec<Line>, g: &mut G, mut l: Line, frac: f64, pz: u64, neg: bool) {
        let mut u = g.amounts(frac, pz);
        if neg {
            u.iter_mut().for_each(|x| *x = -*x);
        }
        *l.values_mut() = g.convv(&u);
        lines.push(l);
    }
    for _ in 0..nsys {
        let id = *g.r.pick(&idpool);
        if used_ids.contains(&id) {
            continue;
        }
        used_ids.push(id);
        let nsrv = 1 + g.r.usize(3);
        let mut srvs: Vec<&'static str> = vec![];
        for _ in 0..nsrv {
            let s = *g.r.pick(&EPB);
            if !srvs.contains(&s) {
                srvs.push(s);
            }
        }
        for s in &srvs {
            let kind = g.r.below(10);
            let pz = g.r.below(4);
            if kind < 4 {
                push_line(&mut lines, &mut g, Line::Used { id, srv: s.to_string(), cr: "ELECTRICIDAD".into(), v: vec![], comment: String::new() }, 0.25, pz, false);
                if allow_amb && g.r.chance(1, 2) && *s != "ILU" && *s != "VEN" {
                    let cr = *g.r.pick(&["EAMBIENTE", "TERMOSOLAR"]);
                    push_line(&mut lines, &mut g, Line::Used { id, srv: s.to_string(), cr: cr.into(), v: vec![], comment: String::new() }, 0.5, pz, false);
                    if g.r.chance(1, 2) {
                        let pid = if g.r.chance(1, 4) { *g.r.pick(&idpool) } else { id };
                        push_line(&mut lines, &mut g, Line::Prod { id: pid, src: cr.into(), v: vec![], comment: String::new() }, 0.6, 3, false);
                    }
                }
            } else if kind < 8 || !allow_amb {
                let f = *g.r.pick(&FUELS);
                push_line(&mut lines, &mut g, Line::Used { id, srv: s.to_string(), cr: f.into(), v: vec![], comment: String::new() }, 0.75, pz, false);
            } else {
                let cr = *g.r.pick(&["EAMBIENTE", "TERMOSOLAR"]);
                push_line(&mut lines, &mut g, Line::Used { id, srv: s.to_string(), cr: cr.into(), v: vec![], comment: String::new() }, 0.25, pz, false);
            }
        }
        let want_aux = allow_aux && g.r.chance(1, 2);
        if want_aux || g.r.chance(1, 4) {
            for s in &srvs {
                let neg = o.neg_out && *s == "REF";
                push_line(&mut lines, &mut g, Line::Out { id, srv: s.to_string(), v: vec![], comment: String::new() }, 0.75, 2, neg);
            }
            // guarantee a defined split for multi-service systems
            if want_aux && srvs.len() > 1 {
                let u: Vec<i64> = (0..g.n).map(|_| g.amount(0.5)).collect();
                lines.push(Line::Out { id, srv: srvs[0].to_string(), v: g.convv(&u), comment: String::new() });
            }
        }
        if want_aux {
            push_line(&mut lines, &mut g, Line::Aux { id, v: vec![], comment: String::new() }, 0.03, 2, false);
        }
    }
    if o.pv != Tri::Never && g.r.chance(6, 10) {
        let f = *g.r.pick(&[0.05, 0.25, 1.0]);
        let pid = *g.r.pick(&idpool);
        push_line(&mut lines, &mut g, Line::Prod { id: pid, src: "EL_INSITU".into(), v: vec![], comment: String::new() }, f, 2, false);
    }
    if allow_cogen && g.r.chance(3, 10) {
        let f = *g.r.pick(&[0.05, 0.25, 1.0]);
        let pz = g.r.below(3);
        push_line(&mut lines, &mut g, Line::Prod { id: 0, src: "EL_COGEN".into(), v: vec![], comment: String::new() }, f, pz, false);
        let fuel = *g.r.pick(&FUELS);
        // at least one non-zero fuel amount
        let mut u = g.amounts(1.0, pz);
        if u.iter().all(|x| *x == 0) {
            u[0] = g.amount(0.5);
        }
        lines.push(Line::Used { id: 0, srv: "COGEN".into(), cr: fuel.into(), v: g.convv(&u), comment: String::new() });
        if g.r.chance(1, 4) {
            let fuel = *g.r.pick(&FUELS);
            push_line(&mut lines, &mut g, Line::Used { id: 0, srv: "COGEN".into(), cr: fuel.into(), v: vec![], comment: String::new() }, 0.25, 1, false);
        }
    }
    if o.nepb != Tri::Never && g.r.chance(4, 10) {
        push_line(&mut lines, &mut g, Line::Used { id: 0, srv: "NEPB".into(), cr: "ELECTRICIDAD".into(), v: vec![], comment: String::new() }, 0.25, 2, false);
    }
    if o.nepb != Tri::Never && g.r.chance(1, 10) {
        let cr = if allow_amb { *g.r.pick(&["GASNATURAL", "EAMBIENTE", "TERMOSOLAR"]) } else { "GASNATURAL" };
        push_line(&mut lines, &mut g, Line::Used { id: 0, srv: "NEPB".into(), cr: cr.into(), v: vec![], comment: String::new() }, 0.25, 2, false);
    }
    if o.demands != Tri::Never && g.r.chance(1, 3) {
        let s = *g.r.pick(&["ACS", "CAL", "REF"]);
        push_line(&mut lines, &mut g, Line::Need { srv: s.into(), v: vec![] }, 0.75, 0, false);
    }
    if !lines.iter().any(|l| matches!(l, Line::Used { .. })) {
        push_line(&mut lines, &mut g, Line::Used { id: 0, srv: "ILU".into(), cr: "ELECTRICIDAD".into(), v: vec![], comment: String::new() }, 0.1, 0, false);
    }
    g.r.shuffle(&mut lines);
    Spec { n, meta: vec![], lines }
}

/// Turn a building into one without any EPB use: every EPB consumption becomes a non-EPB one (or the building
/// only produces); auxiliaries and outputs, which only exist for EPB services, are dropped.
pub fn without_epb_use(spec: &mut Spec, r: &mut Rng) {
    let only_production = r.chance(1, 3);
    spec.lines.retain(|l| !matches!(l, Line::Aux { .. } | Line::Out { .. }));
    if only_production {
        spec.lines.retain(|l| !matches!(l, Line::Used { srv, .. } if srv != "COGEN"));
    } else {
        for l in spec.lines.iter_mut() {
            if let Line::Used { srv, .. } = l {
                if EPB.contains(&srv.as_str()) {
                    *srv = "NEPB".to_string();
                }
            }
        }
    }
    if !spec.lines.iter().any(|l| matches!(l, Line::Used { .. } | Line::Prod { .. })) {
        spec.lines.push(Line::Prod { id: 0, src: "EL_INSITU".into(), v: vec![10.0; spec.n], comment: String::new() });
    }
}

/// Plant the documented non-computable DHW shape several times over: two or three *new* systems burn the same
/// kind of biomass for DHW next to a non-nearby carrier, none of them declares its DHW output, and a DHW demand
/// exists. The indicator must then be an error - the same error (text included, it is saved in the JSON and
/// printed in the report) on every run, whichever of the offending systems a hash set yields first.
pub fn plant_undeclared_biomass_dhw(spec: &mut Spec, r: &mut Rng) {
    let bio = *r.pick(&["BIOMASA", "BIOMASADENSIFICADA"]);
    let n = spec.n;
    let mut used: Vec<i32> = spec.lines.iter().filter_map(|l| l.id()).collect();
    let k = 2 + r.usize(2);
    for _ in 0..k {
        let mut id = 40 + r.below(50) as i32;
        while used.contains(&id) {
            id += 1;
        }
        used.push(id);
        let v: Vec<f32> = (0..n).map(|_| (1 + r.below(400)) as f32 / 8.0).collect();
        spec.lines.push(Line::Used { id, srv: "ACS".into(), cr: bio.into(), v, comment: String::new() });
    }
    let v: Vec<f32> = (0..n).map(|_| (1 + r.below(400)) as f32 / 8.0).collect();
    spec.lines.push(Line::Used { id: used[used.len() - 1], srv: "ACS".into(), cr: (*r.pick(&["GASNATURAL", "GASOLEO", "GLP"])).into(), v, comment: String::new() });
    if !spec.lines.iter().any(|l| matches!(l, Line::Need { srv, .. } if srv == "ACS")) {
        let v: Vec<f32> = (0..n).map(|_| (8 + r.below(800)) as f32 / 8.0).collect();
        spec.lines.push(Line::Need { srv: "ACS".into(), v });
    }
    r.shuffle(&mut spec.lines);
}

/// Plant a large plant room: 35 to 60 more systems, each with one service, a consumption line and auxiliaries of its
/// own (a size no fixed-capacity table or "first N systems" loop would have been written for).
pub fn plant_many_aux_systems(spec: &mut Spec, r: &mut Rng) {
    let n = spec.n;
    let k = 35 + r.usize(26);
    let used: Vec<i32> = spec.lines.iter().filter_map(|l| l.id()).collect();
    let mut id = 200;
    for _ in 0..k {
        while used.contains(&id) {
            id += 1;
        }
        let srv = *r.pick(&["CAL", "ACS", "REF", "VEN"]);
        let cr = *r.pick(&["ELECTRICIDAD", "GASNATURAL", "ELECTRICIDAD"]);
        let v: Vec<f32> = (0..n).map(|_| (8 + r.below(400)) as f32 / 8.0).collect();
        let w: Vec<f32> = (0..n).map(|_| (1 + r.below(40)) as f32 / 8.0).collect();
        spec.lines.push(Line::Used { id, srv: srv.into(), cr: cr.into(), v, comment: String::new() });
        spec.lines.push(Line::Aux { id, v: w, comment: String::new() });
        id += 1 + r.below(3) as i32;
    }
    r.shuffle(&mut spec.lines);
}
