//! Flattening of an EnergyPerformance value into `path -> number`.
//!
//! `flatten_ep` reads every numeric field from the *struct* (JSON rounds RenNrenCo2 to three
//! decimals); `json_paths` enumerates the numeric leaves of the serde representation. The two
//! path sets must coincide: a result field the explicit list does not know is a harness error,
//! never a silent gap (DESIGN §4 C02/C04).

use cteepbd::types::*;
use std::collections::{BTreeMap, BTreeSet, HashMap};

pub type Flat = BTreeMap<String, f64>;

fn put3(m: &mut Flat, p: &str, v: &RenNrenCo2) {
    m.insert(format!("{p}.ren"), v.ren as f64);
    m.insert(format!("{p}.nren"), v.nren as f64);
    m.insert(format!("{p}.co2"), v.co2 as f64);
}
fn putv(m: &mut Flat, p: &str, v: &[f32]) {
    for (i, x) in v.iter().enumerate() {
        m.insert(format!("{p}[{i}]"), *x as f64);
    }
}
fn putmap<K: std::fmt::Display>(m: &mut Flat, p: &str, h: &HashMap<K, f32>) {
    for (k, x) in h {
        m.insert(format!("{p}.{k}"), *x as f64);
    }
}
fn putmapv<K: std::fmt::Display>(m: &mut Flat, p: &str, h: &HashMap<K, Vec<f32>>) {
    for (k, x) in h {
        putv(m, &format!("{p}.{k}"), x);
    }
}
fn putmap3<K: std::fmt::Display>(m: &mut Flat, p: &str, h: &HashMap<K, RenNrenCo2>) {
    for (k, x) in h {
        put3(m, &format!("{p}.{k}"), x);
    }
}

pub fn flatten_balance(m: &mut Flat, p: &str, b: &Balance) {
    if let Some(x) = b.needs.ACS {
        m.insert(format!("{p}.needs.ACS"), x as f64);
    }
    if let Some(x) = b.needs.CAL {
        m.insert(format!("{p}.needs.CAL"), x as f64);
    }
    if let Some(x) = b.needs.REF {
        m.insert(format!("{p}.needs.REF"), x as f64);
    }
    m.insert(format!("{p}.used.nepus"), b.used.nepus as f64);
    m.insert(format!("{p}.used.epus"), b.used.epus as f64);
    m.insert(format!("{p}.used.cgnus"), b.used.cgnus as f64);
    putmap(m, &format!("{p}.used.epus_by_srv"), &b.used.epus_by_srv);
    putmap(m, &format!("{p}.used.epus_by_cr"), &b.used.epus_by_cr);
    for (srv, h) in &b.used.epus_by_cr_by_srv {
        putmap(m, &format!("{p}.used.epus_by_cr_by_srv.{srv}"), h);
    }
    m.insert(format!("{p}.prod.an"), b.prod.an as f64);
    putmap(m, &format!("{p}.prod.by_cr"), &b.prod.by_cr);
    putmap(m, &format!("{p}.prod.by_src"), &b.prod.by_src);
    putmap(m, &format!("{p}.prod.epus_by_src"), &b.prod.epus_by_src);
    for (src, h) in &b.prod.epus_by_srv_by_src {
        putmap(m, &format!("{p}.prod.epus_by_srv_by_src.{src}"), h);
    }
    m.insert(format!("{p}.del.an"), b.del.an as f64);
    m.insert(format!("{p}.del.onst"), b.del.onst as f64);
    m.insert(format!("{p}.del.grid"), b.del.grid as f64);
    putmap(m, &format!("{p}.del.grid_by_cr"), &b.del.grid_by_cr);
    m.insert(format!("{p}.exp.an"), b.exp.an as f64);
    m.insert(format!("{p}.exp.grid"), b.exp.grid as f64);
    m.insert(format!("{p}.exp.nepus"), b.exp.nepus as f64);
    put3(m, &format!("{p}.we.a"), &b.we.a);
    putmap3(m, &format!("{p}.we.a_by_srv"), &b.we.a_by_srv);
    put3(m, &format!("{p}.we.b"), &b.we.b);
    putmap3(m, &format!("{p}.we.b_by_srv"), &b.we.b_by_srv);
    put3(m, &format!("{p}.we.del"), &b.we.del);
    put3(m, &format!("{p}.we.exp_a"), &b.we.exp_a);
    put3(m, &format!("{p}.we.exp"), &b.we.exp);
}

pub fn flatten_carrier(m: &mut Flat, p: &str, b: &BalanceCarrier) {
    putv(m, &format!("{p}.f_match"), &b.f_match);
    let u = &b.used;
    putv(m, &format!("{p}.used.epus_t"), &u.epus_t);
    putmapv(m, &format!("{p}.used.epus_by_srv_t"), &u.epus_by_srv_t);
    m.insert(format!("{p}.used.epus_an"), u.epus_an as f64);
    putmap(m, &format!("{p}.used.epus_by_srv_an"), &u.epus_by_srv_an);
    putv(m, &format!("{p}.used.nepus_t"), &u.nepus_t);
    m.insert(format!("{p}.used.nepus_an"), u.nepus_an as f64);
    putv(m, &format!("{p}.used.cgnus_t"), &u.cgnus_t);
    m.insert(format!("{p}.used.cgnus_an"), u.cgnus_an as f64);
    let pr = &b.prod;
    putv(m, &format!("{p}.prod.t"), &pr.t);
    m.insert(format!("{p}.prod.an"), pr.an as f64);
    putmapv(m, &format!("{p}.prod.by_src_t"), &pr.by_src_t);
    putmap(m, &format!("{p}.prod.by_src_an"), &pr.by_src_an);
    putv(m, &format!("{p}.prod.epus_t"), &pr.epus_t);
    m.insert(format!("{p}.prod.epus_an"), pr.epus_an as f64);
    putmapv(m, &format!("{p}.prod.epus_by_src_t"), &pr.epus_by_src_t);
    putmap(m, &format!("{p}.prod.epus_by_src_an"), &pr.epus_by_src_an);
    for (src, h) in &pr.epus_by_srv_by_src_t {
        putmapv(m, &format!("{p}.prod.epus_by_srv_by_src_t.{src}"), h);
    }
    for (src, h) in &pr.epus_by_srv_by_src_an {
        putmap(m, &format!("{p}.prod.epus_by_srv_by_src_an.{src}"), h);
    }
    let e = &b.exp;
    putv(m, &format!("{p}.exp.t"), &e.t);
    m.insert(format!("{p}.exp.an"), e.an as f64);
    putv(m, &format!("{p}.exp.grid_t"), &e.grid_t);
    m.insert(format!("{p}.exp.grid_an"), e.grid_an as f64);
    putv(m, &format!("{p}.exp.nepus_t"), &e.nepus_t);
    m.insert(format!("{p}.exp.nepus_an"), e.nepus_an as f64);
    putmapv(m, &format!("{p}.exp.by_src_t"), &e.by_src_t);
    putmap(m, &format!("{p}.exp.by_src_an"), &e.by_src_an);
    let d = &b.del;
    m.insert(format!("{p}.del.an"), d.an as f64);
    putv(m, &format!("{p}.del.grid_t"), &d.grid_t);
    m.insert(format!("{p}.del.grid_an"), d.grid_an as f64);
    putv(m, &format!("{p}.del.onst_t"), &d.onst_t);
    m.insert(format!("{p}.del.onst_an"), d.onst_an as f64);
    putv(m, &format!("{p}.del.cgn_t"), &d.cgn_t);
    m.insert(format!("{p}.del.cgn_an"), d.cgn_an as f64);
    let w = &b.we;
    put3(m, &format!("{p}.we.b"), &w.b);
    putmap3(m, &format!("{p}.we.b_by_srv"), &w.b_by_srv);
    put3(m, &format!("{p}.we.a"), &w.a);
    putmap3(m, &format!("{p}.we.a_by_srv"), &w.a_by_srv);
    put3(m, &format!("{p}.we.del"), &w.del);
    put3(m, &format!("{p}.we.del_grid"), &w.del_grid);
    put3(m, &format!("{p}.we.del_onst"), &w.del_onst);
    put3(m, &format!("{p}.we.del_cgn"), &w.del_cgn);
    put3(m, &format!("{p}.we.exp"), &w.exp);
    put3(m, &format!("{p}.we.exp_a"), &w.exp_a);
    put3(m, &format!("{p}.we.exp_nepus_a"), &w.exp_nepus_a);
    put3(m, &format!("{p}.we.exp_grid_a"), &w.exp_grid_a);
    put3(m, &format!("{p}.we.exp_nepus_ab"), &w.exp_nepus_ab);
    put3(m, &format!("{p}.we.exp_grid_ab"), &w.exp_grid_ab);
    put3(m, &format!("{p}.we.exp_ab"), &w.exp_ab);
}

/// every numeric result field of `ep` (inputs `components` / `wfactors` and `misc` excluded)
pub fn flatten_ep(ep: &EnergyPerformance) -> Flat {
    let mut m = Flat::new();
    m.insert("k_exp".into(), ep.k_exp as f64);
    m.insert("arearef".into(), ep.arearef as f64);
    m.insert("rer".into(), ep.rer as f64);
    m.insert("rer_nrb".into(), ep.rer_nrb as f64);
    m.insert("rer_onst".into(), ep.rer_onst as f64);
    for (cr, b) in &ep.balance_cr {
        flatten_carrier(&mut m, &format!("balance_cr.{cr}"), b);
    }
    flatten_balance(&mut m, "balance", &ep.balance);
    flatten_balance(&mut m, "balance_m2", &ep.balance_m2);
    m
}

fn walk(v: &serde_json::Value, p: String, out: &mut BTreeSet<String>) {
    match v {
        serde_json::Value::Number(_) => {
            out.insert(p);
        }
        // non-finite f32 serialise as null: they are still numeric leaves
        serde_json::Value::Null => {
            out.insert(p);
        }
        serde_json::Value::Object(o) => {
            for (k, x) in o {
                let q = if p.is_empty() { k.clone() } else { format!("{p}.{k}") };
                walk(x, q, out);
            }
        }
        serde_json::Value::Array(a) => {
            for (i, x) in a.iter().enumerate() {
                walk(x, format!("{p}[{i}]"), out);
            }
        }
        _ => {}
    }
}

/// numeric leaf paths of the serde representation of `ep` (same exclusions as `flatten_ep`)
pub fn json_paths(ep: &EnergyPerformance) -> BTreeSet<String> {
    let mut v = serde_json::to_value(ep).expect("EnergyPerformance serialises");
    if let Some(o) = v.as_object_mut() {
        o.remove("components");
        o.remove("wfactors");
        o.remove("misc");
    }
    let mut out = BTreeSet::new();
    walk(&v, String::new(), &mut out);
    out
}

/// Paths present in the serde representation but unknown to the explicit flattening (or vice versa).
pub fn completeness_gap(ep: &EnergyPerformance) -> Vec<String> {
    let a: BTreeSet<String> = flatten_ep(ep).keys().cloned().collect();
    let b = json_paths(ep);
    a.symmetric_difference(&b).cloned().collect()
}

/// true for per-step entries (path ends with an index)
pub fn is_step_path(p: &str) -> bool {
    p.ends_with(']')
}
pub fn step_index(p: &str) -> Option<(String, usize)> {
    if !p.ends_with(']') {
        return None;
    }
    let i = p.rfind('[')?;
    let idx: usize = p[i + 1..p.len() - 1].parse().ok()?;
    Some((p[..i].to_string(), idx))
}
