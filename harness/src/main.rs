#![allow(dead_code)]
//! vmon — runtime monitors for energiacte/cteepbd (see /verif/DESIGN.md)
//!
//!   vmon <Cxx> --tier quick|thorough [--seed N] [--cli-debug PATH] [--cli-release PATH] [--scale X]
//!   vmon replay <witness.json> [--cli-debug PATH] [--cli-release PATH]
//!
//! exit 0: property held on everything observed (KNOWN-FINDING lines possible)
//! exit 1: violation(s); one line `VIOLATION property=<id> replay=<path>` per stored witness
//! exit 2: harness failure (never a property verdict)

mod case;
mod cli;
mod corrupt;
mod findings;
mod flat;
mod gen;
mod mon;
mod norm;
mod refmodel;
mod rng;
mod safe;
mod spec;
mod tally;
mod xmlwf;

use serde_json::{json, Value};
use std::path::PathBuf;
use std::time::Instant;
use tally::Tally;

#[derive(Clone, Copy, Debug, PartialEq, Eq)]
pub enum Tier {
    Quick,
    Thorough,
}

#[derive(Clone, Debug)]
pub struct Ctx {
    pub tier: Tier,
    pub seed: u64,
    pub threads: usize,
    pub cli_debug: Option<PathBuf>,
    pub cli_release: Option<PathBuf>,
    pub verif: PathBuf,
    /// multiplies every workload size (calibration runs use > 1)
    pub scale: f64,
    pub replaying: bool,
    pub findings: findings::Findings,
    /// directory with the outputs of the Miri driver (extra engine of C10)
    pub miri_outputs: Option<PathBuf>,
}

impl Ctx {
    pub fn cases(&self, quick: u64, thorough: u64) -> u64 {
        let base = if self.tier == Tier::Quick { quick } else { thorough };
        ((base as f64) * self.scale).max(1.0) as u64
    }
    pub fn thorough(&self) -> bool {
        self.tier == Tier::Thorough
    }
    pub fn tier_name(&self) -> &'static str {
        if self.tier == Tier::Quick {
            "quick"
        } else {
            "thorough"
        }
    }
}

/// Run `f(case_index, rng, tally)` for case indices 0..total, sharded over the available cores.
/// A panic that escapes `f` is a harness error (monitors wrap every library call themselves).
pub fn run_sharded<F>(ctx: &Ctx, total: u64, f: F) -> Tally
where
    F: Fn(u64, &mut rng::Rng, &mut Tally) + Sync,
{
    let threads = ctx.threads.max(1) as u64;
    let mut merged = Tally::default();
    let results: Vec<Tally> = std::thread::scope(|s| {
        let mut hs = vec![];
        for sh in 0..threads {
            let f = &f;
            hs.push(
                std::thread::Builder::new()
                    .stack_size(64 << 20)
                    .spawn_scoped(s, move || {
                        let mut t = Tally::default();
                        let mut idx = sh;
                        while idx < total {
                            let mut r = rng::Rng::new(rng::mix(ctx.seed, idx));
                            let res = std::panic::catch_unwind(std::panic::AssertUnwindSafe(|| f(idx, &mut r, &mut t)));
                            if let Err(e) = res {
                                let msg = safe::panic_msg(&e);
                                let at = LAST_PANIC_AT.with(|c| c.borrow().clone());
                                if at.starts_with(&repo_src_prefix()) {
                                    // a panic raised inside the library under test that a monitor did not catch itself:
                                    // the library must return a result or a typed error (C16), so this is an observation
                                    // about the code, not a harness failure
                                    t.violation(
                                        "library_panicked_in_unguarded_call",
                                        format!("the library panicked at {at} while the monitor processed case {idx} (seed {}): {msg}", ctx.seed),
                                        || json!({"regenerate": {"seed": ctx.seed, "case_index": idx, "tier": ctx.tier_name()}, "panic_at": at, "message": msg}),
                                    );
                                } else {
                                    t.harness_error(format!("monitor panicked on case {idx} (seed {}) at {at}: {msg}", ctx.seed));
                                }
                            }
                            t.cases += 1;
                            idx += threads;
                        }
                        t
                    })
                    .expect("spawn shard"),
            );
        }
        hs.into_iter().map(|h| h.join().expect("shard join")).collect()
    });
    for t in results {
        merged.merge(t);
    }
    merged
}

thread_local! {
    /// source location of the last panic raised on this thread (set by the panic hook)
    pub static LAST_PANIC_AT: std::cell::RefCell<String> = std::cell::RefCell::new(String::new());
}

/// where the sources of the library under test live (panic locations of a path dependency are absolute)
fn repo_src_prefix() -> String {
    format!("{}/src/", std::env::var("VERIF_REPO").unwrap_or_else(|_| "/repo".into()).trim_end_matches('/'))
}

pub struct Report {
    pub tally: Tally,
    pub rule: String,
    pub assumptions: Vec<String>,
    /// observation quotas: (name, observed, required)
    pub quotas: Vec<(String, u64, u64)>,
}

fn usage() -> ! {
    eprintln!("usage: vmon <C01..C19> --tier quick|thorough [--seed N] [--cli-debug P] [--cli-release P] [--scale X] [--threads N]\n       vmon replay <witness.json> [--cli-debug P] [--cli-release P]");
    std::process::exit(2)
}

fn main() {
    let args: Vec<String> = std::env::args().collect();
    if args.len() < 2 {
        usage();
    }
    let mut ctx = Ctx {
        tier: Tier::Quick,
        seed: std::env::var("VERIF_SEED").ok().and_then(|s| s.trim().parse::<u64>().ok()).unwrap_or(20260926),
        threads: std::thread::available_parallelism().map(|n| n.get()).unwrap_or(4).min(16),
        cli_debug: None,
        cli_release: None,
        verif: PathBuf::from(std::env::var("VERIF_DIR").unwrap_or_else(|_| "/verif".into())),
        scale: 1.0,
        replaying: false,
        findings: findings::Findings::default(),
        miri_outputs: None,
    };
    if let Ok(t) = std::env::var("VERIF_TIER") {
        if t == "thorough" {
            ctx.tier = Tier::Thorough;
        }
    }
    let mut positional: Vec<String> = vec![];
    let mut i = 1;
    while i < args.len() {
        match args[i].as_str() {
            "--tier" => {
                i += 1;
                ctx.tier = match args.get(i).map(|s| s.as_str()) {
                    Some("quick") => Tier::Quick,
                    Some("thorough") => Tier::Thorough,
                    _ => usage(),
                };
            }
            "--seed" => {
                i += 1;
                ctx.seed = args.get(i).and_then(|s| s.parse().ok()).unwrap_or_else(|| usage());
            }
            "--threads" => {
                i += 1;
                ctx.threads = args.get(i).and_then(|s| s.parse().ok()).unwrap_or_else(|| usage());
            }
            "--scale" => {
                i += 1;
                ctx.scale = args.get(i).and_then(|s| s.parse().ok()).unwrap_or_else(|| usage());
            }
            "--cli-debug" => {
                i += 1;
                ctx.cli_debug = args.get(i).map(PathBuf::from);
            }
            "--miri-outputs" => {
                i += 1;
                ctx.miri_outputs = args.get(i).map(PathBuf::from);
            }
            "--cli-release" => {
                i += 1;
                ctx.cli_release = args.get(i).map(PathBuf::from);
            }
            x => positional.push(x.to_string()),
        }
        i += 1;
    }
    ctx.findings = findings::load(&ctx.verif.join("known_findings.txt"));
    // library panics are expected observations for some monitors: keep stderr quiet
    std::panic::set_hook(Box::new(|info| {
        let at = info.location().map(|l| format!("{}:{}", l.file(), l.line())).unwrap_or_default();
        LAST_PANIC_AT.with(|c| *c.borrow_mut() = at);
    }));

    if positional.first().map(|s| s.as_str()) == Some("replay") {
        let path = positional.get(1).cloned().unwrap_or_else(|| usage());
        std::process::exit(replay(&mut ctx, &path));
    }
    if positional.first().map(|s| s.as_str()) == Some("refdump") {
        // debugging aid: reference evaluation (value, cancellation scale) of the case stored in a witness
        let path = positional.get(1).cloned().unwrap_or_else(|| usage());
        let filter = positional.get(2).cloned().unwrap_or_default();
        let doc: serde_json::Value = serde_json::from_str(&std::fs::read_to_string(&path).unwrap_or_default()).unwrap_or_default();
        let case: Option<case::Case> = serde_json::from_value(doc["witness"]["case"].clone()).ok();
        let Some(case) = case else {
            eprintln!("no case in {path}");
            std::process::exit(2);
        };
        let mut t = tally::Tally::default();
        match mon::common::prepare("debug", &case, &mut t) {
            Some((comps, fac)) => match mon::common::ref_eval_parsed(&comps, &fac, case.k, case.area, case.lm) {
                Ok(rf) => {
                    for (p, v) in rf.iter().filter(|(p, _)| p.contains(&filter)) {
                        println!("{p} = {} (scale {:e})", v.v, v.s);
                    }
                }
                Err(e) => println!("reference evaluation fails: {e:?}"),
            },
            None => println!("case is rejected by the library before evaluation"),
        }
        std::process::exit(0);
    }
    let prop = positional.first().cloned().unwrap_or_else(|| usage());
    let t0 = Instant::now();
    let report = match mon::run(&prop, &ctx) {
        Some(r) => r,
        None => {
            eprintln!("unknown property {prop}");
            std::process::exit(2);
        }
    };
    let wall = t0.elapsed().as_secs_f64();
    std::process::exit(finish(&ctx, &prop, report, wall));
}

fn finish(ctx: &Ctx, prop_full: &str, report: Report, wall: f64) -> i32 {
    let Report { mut tally, rule, assumptions, quotas } = report;
    let mut exit = 0;
    let prop = prop_full.split('-').next().unwrap_or(prop_full);
    // write witnesses and print verdict lines
    let rdir = ctx.verif.join("replay");
    let _ = std::fs::create_dir_all(&rdir);
    for (i, v) in tally.violations.iter().enumerate() {
        let path = rdir.join(format!("{}-{}-{}-{}.json", prop, ctx.tier_name(), ctx.seed, i));
        let doc = json!({"property": prop, "monitor": v.monitor, "detail": v.detail, "seed": ctx.seed, "tier": ctx.tier_name(), "witness": v.witness});
        if !ctx.replaying {
            if let Err(e) = std::fs::write(&path, serde_json::to_string_pretty(&doc).unwrap()) {
                eprintln!("cannot write witness {}: {e}", path.display());
            }
        }
        println!("VIOLATION property={} replay={}", prop, path.display());
        println!("  monitor={} {}", v.monitor, first_line(&v.detail, 600));
        exit = 1;
    }
    if tally.violation_count > 0 {
        exit = 1;
        println!("  ({} violating observations in total; {} witnesses stored)", tally.violation_count, tally.violations.len());
    }
    // known findings (classified by the monitors through their mechanism predicates)
    for (id, (n, what)) in &tally.known {
        println!("KNOWN-FINDING: property={} {} [{}; {} occurrence(s) this run]", prop, what, id, n);
    }
    // quotas: a run that did not observe what it must observe is a harness failure, not a pass
    let mut quota_fail = vec![];
    for (name, got, need) in &quotas {
        tally.add(&format!("quota.{name}.observed"), *got);
        tally.add(&format!("quota.{name}.required"), *need);
        if got < need {
            quota_fail.push(format!("{name}: observed {got} < required {need}"));
        }
    }
    let ev = tally.evidence(prop, ctx.tier_name(), ctx.seed, &rule, &assumptions.iter().map(|s| s.as_str()).collect::<Vec<_>>(), wall);
    if !ctx.replaying {
        let edir = ctx.verif.join("evidence");
        let _ = std::fs::create_dir_all(&edir);
        let (base, engine) = match prop_full.split_once('-') {
            Some((b, e)) => (b, Some(e)),
            None => (prop, None),
        };
        let epath = edir.join(format!("{base}.json"));
        let doc = match engine {
            None => ev,
            Some(engine) => {
                // an extra engine of the thorough tier: fold what it observed into the property's evidence file
                let mut main: Value = std::fs::read_to_string(&epath).ok().and_then(|s| serde_json::from_str(&s).ok()).unwrap_or_else(|| ev.clone());
                main["property_id"] = json!(base);
                let extra = json!({"evaluations": ev["coverage"]["evaluations"], "counters": ev["coverage"]["counters"], "samples": ev["coverage"]["samples"], "rule": ev["coverage"]["rule"], "wall_s": ev["wall_s"], "violations": ev["violations"]});
                main["coverage"][format!("extra_engine.{engine}")] = extra;
                let n = main["coverage"]["evaluations"].as_u64().unwrap_or(0) + ev["coverage"]["evaluations"].as_u64().unwrap_or(0);
                main["coverage"]["evaluations"] = json!(n);
                main["wall_s"] = json!(main["wall_s"].as_f64().unwrap_or(0.0) + ev["wall_s"].as_f64().unwrap_or(0.0));
                main["violations"] = json!(main["violations"].as_u64().unwrap_or(0) + ev["violations"].as_u64().unwrap_or(0));
                main
            }
        };
        if let Err(e) = std::fs::write(&epath, serde_json::to_string_pretty(&doc).unwrap()) {
            eprintln!("HARNESS-ERROR: cannot write evidence {}: {e}", epath.display());
            return 2;
        }
    }

    println!(
        "{} {}: cases={} evaluations={} distinct_nontrivial={} violations={} known_findings={} wall={:.1}s",
        prop,
        ctx.tier_name(),
        tally.cases,
        tally.evaluations,
        tally.nontrivial.len(),
        tally.violation_count,
        tally.known.len(),
        wall
    );
    if exit == 0 {
        if !tally.harness_errors.is_empty() {
            for e in &tally.harness_errors {
                eprintln!("HARNESS-ERROR: {e}");
            }
            return 2;
        }
        if !quota_fail.is_empty() && !ctx.replaying {
            for q in &quota_fail {
                eprintln!("HARNESS-ERROR: observation quota not met: {q}");
            }
            return 2;
        }
    }
    exit
}

fn first_line(s: &str, max: usize) -> String {
    let l = s.lines().next().unwrap_or("");
    l.chars().take(max).collect()
}

fn replay(ctx: &mut Ctx, path: &str) -> i32 {
    ctx.replaying = true;
    let txt = match std::fs::read_to_string(path) {
        Ok(t) => t,
        Err(e) => {
            eprintln!("cannot read {path}: {e}");
            return 2;
        }
    };
    let doc: Value = match serde_json::from_str(&txt) {
        Ok(v) => v,
        Err(e) => {
            eprintln!("cannot parse {path}: {e}");
            return 2;
        }
    };
    let prop = doc["property"].as_str().unwrap_or("").to_string();
    let monitor = doc["monitor"].as_str().unwrap_or("").to_string();
    if let Some(s) = doc["seed"].as_u64() {
        ctx.seed = s;
    }
    if doc["tier"].as_str() == Some("thorough") {
        ctx.tier = Tier::Thorough;
    }
    let t0 = Instant::now();
    if doc["witness"]["regenerate"].is_object() {
        // the witness names (seed, case index) of a generated case: the whole workload of that seed is re-run
        ctx.replaying = false;
        return match mon::run(&prop, ctx) {
            Some(report) => finish(ctx, &prop, report, t0.elapsed().as_secs_f64()),
            None => 2,
        };
    }
    match mon::replay(&prop, ctx, &monitor, &doc["witness"]) {
        Some(report) => {
            let n = report.tally.violation_count;
            let code = finish(ctx, &prop, report, t0.elapsed().as_secs_f64());
            if n == 0 {
                println!("replay: no violation reproduced for {prop} ({monitor})");
            }
            code
        }
        None => {
            eprintln!("cannot replay property {prop}");
            2
        }
    }
}
