//! Process-level monitor: run the real `cteepbd` binary under a watchdog and classify how it ended.

use std::io::Read;
use std::path::{Path, PathBuf};
use std::process::{Command, Stdio};
use std::sync::atomic::{AtomicU64, Ordering};
use std::time::{Duration, Instant};

#[derive(Debug, Clone, Default)]
pub struct RunResult {
    pub code: Option<i32>,
    pub signal: Option<i32>,
    pub timed_out: bool,
    pub stdout: String,
    pub stderr: String,
    pub wall_ms: u128,
    pub spawn_error: Option<String>,
}

static COUNTER: AtomicU64 = AtomicU64::new(0);

pub fn scratch_root() -> PathBuf {
    let base = std::env::var("VERIF_DIR").unwrap_or_else(|_| "/verif".into());
    PathBuf::from(base).join(".build").join("scratch")
}

/// a fresh empty directory for the files of one process-level case
pub fn scratch_dir(tag: &str) -> PathBuf {
    let n = COUNTER.fetch_add(1, Ordering::Relaxed);
    let d = scratch_root().join(format!("{}-{}-{}", tag, std::process::id(), n));
    let _ = std::fs::create_dir_all(&d);
    d
}

/// Run `bin args`, draining stdout and stderr completely; kill after `timeout_ms`.
pub fn run(bin: &Path, args: &[String], timeout_ms: u64) -> RunResult {
    run_with(bin, args, timeout_ms, None)
}

pub fn run_with(bin: &Path, args: &[String], timeout_ms: u64, wrapper: Option<&[String]>) -> RunResult {
    let t0 = Instant::now();
    let mut cmd = match wrapper {
        Some(w) if !w.is_empty() => {
            let mut c = Command::new(&w[0]);
            c.args(&w[1..]);
            c.arg(bin);
            c
        }
        _ => Command::new(bin),
    };
    cmd.args(args).stdin(Stdio::null()).stdout(Stdio::piped()).stderr(Stdio::piped());
    cmd.env("RUST_BACKTRACE", "0");
    // the program's results and documents must not depend on the environment it is started in: a third of the runs get a
    // Spanish / Catalan numeric locale, another third an unusable TMPDIR and another time zone (chosen from the arguments,
    // so that a replay makes the same choice)
    match crate::spec::fnv(args.join(" ").as_bytes()) % 3 {
        0 => {
            cmd.env("LC_ALL", "es_ES.UTF-8").env("LC_NUMERIC", "es_ES.UTF-8").env("LANG", "es_ES.UTF-8");
        }
        1 => {
            cmd.env("TMPDIR", "/nonexistent/tmp").env("TZ", "Pacific/Kiritimati").env("LC_NUMERIC", "ca_ES@valencia").env_remove("HOME");
        }
        _ => {}
    }
    let mut child = match cmd.spawn() {
        Ok(c) => c,
        Err(e) => return RunResult { spawn_error: Some(e.to_string()), ..Default::default() },
    };
    let mut so = child.stdout.take().unwrap();
    let mut se = child.stderr.take().unwrap();
    let h1 = std::thread::spawn(move || {
        let mut b = Vec::new();
        let _ = so.read_to_end(&mut b);
        b
    });
    let h2 = std::thread::spawn(move || {
        let mut b = Vec::new();
        let _ = se.read_to_end(&mut b);
        b
    });
    let deadline = t0 + Duration::from_millis(timeout_ms);
    let mut timed_out = false;
    let mut sleep_us = 200u64;
    let status = loop {
        match child.try_wait() {
            Ok(Some(st)) => break Some(st),
            Ok(None) => {
                if Instant::now() >= deadline {
                    timed_out = true;
                    let _ = child.kill();
                    break child.wait().ok();
                }
                std::thread::sleep(Duration::from_micros(sleep_us));
                sleep_us = (sleep_us * 2).min(5_000);
            }
            Err(_) => break None,
        }
    };
    let stdout = String::from_utf8_lossy(&h1.join().unwrap_or_default()).to_string();
    let stderr = String::from_utf8_lossy(&h2.join().unwrap_or_default()).to_string();
    let (code, signal) = match status {
        Some(st) => {
            #[cfg(unix)]
            {
                use std::os::unix::process::ExitStatusExt;
                (st.code(), st.signal())
            }
            #[cfg(not(unix))]
            {
                (st.code(), None)
            }
        }
        None => (None, None),
    };
    RunResult { code, signal: if timed_out { None } else { signal }, timed_out, stdout, stderr, wall_ms: t0.elapsed().as_millis(), spawn_error: None }
}

/// split a text into (non-numeric text, number, decimals printed) tokens
fn tokens(s: &str) -> Vec<(String, Option<(f64, i32)>)> {
    let mut out = vec![];
    let mut cur = String::new();
    let b: Vec<char> = s.chars().collect();
    let mut i = 0;
    while i < b.len() {
        let c = b[i];
        let starts_num = c.is_ascii_digit() || (c == '-' && i + 1 < b.len() && b[i + 1].is_ascii_digit() && (i == 0 || !b[i - 1].is_alphanumeric()));
        if starts_num && (i == 0 || !(b[i - 1].is_alphanumeric() || b[i - 1] == '_')) {
            let mut j = i + 1;
            while j < b.len() && (b[j].is_ascii_digit() || b[j] == '.') {
                j += 1;
            }
            let txt: String = b[i..j].iter().collect();
            let core = txt.trim_end_matches('.');
            if let Ok(x) = core.parse::<f64>() {
                let decimals = core.split_once('.').map(|(_, d)| d.len() as i32).unwrap_or(0);
                out.push((std::mem::take(&mut cur), Some((x, decimals))));
                if txt.ends_with('.') {
                    cur.push('.');
                }
                i = j;
                continue;
            }
        }
        cur.push(c);
        i += 1;
    }
    out.push((cur, None));
    out
}

/// Same text; numbers may differ by one unit of their last printed digit (two evaluations, or an
/// evaluation of rounded data, can fall on either side of a rounding boundary) plus `extra` (absolute)
/// plus 1e-5 relative; integers must be equal unless `extra` allows otherwise; "-0.00" equals "0.00".
pub fn reports_equal(a: &str, b: &str, extra: f64) -> bool {
    // A by-carrier / by-source table lists a key only when its amount is non-zero: a row `- KEY: v` that only one
    // of the reports has stands for 0 in the other one, so it is compared with 0 under the same tolerance as any
    // other number (and dropped if it passes) before the two texts are compared token by token.
    let small_row = |l: &str| -> bool {
        match l.strip_prefix("- ").and_then(|r| r.split_once(": ")) {
            Some((k, v)) if !k.is_empty() && k.chars().all(|c| c.is_ascii_uppercase() || c.is_ascii_digit() || c == '_') => {
                let t = tokens(v);
                match (t.len(), t.first()) {
                    (2, Some((pre, Some((x, dp))))) if pre.is_empty() && t[1].0.is_empty() => x.abs() <= (if *dp > 0 { 1.0001 * 10f64.powi(-*dp) } else { 0.0 }) + extra,
                    _ => false,
                }
            }
            _ => false,
        }
    };
    let skeleton = |l: &str| -> String { tokens(l).into_iter().map(|(t, n)| if n.is_some() { format!("{t}#") } else { t }).collect() };
    let (la, lb): (Vec<&str>, Vec<&str>) = (a.lines().collect(), b.lines().collect());
    let (mut ka, mut kb): (Vec<&str>, Vec<&str>) = (vec![], vec![]);
    let (mut i, mut j) = (0, 0);
    while i < la.len() || j < lb.len() {
        if i < la.len() && j < lb.len() && skeleton(la[i]) == skeleton(lb[j]) {
            ka.push(la[i]);
            kb.push(lb[j]);
            i += 1;
            j += 1;
        } else if i < la.len() && small_row(la[i]) {
            i += 1;
        } else if j < lb.len() && small_row(lb[j]) {
            j += 1;
        } else {
            // a real difference: keep both lines, the token comparison below reports it
            if i < la.len() {
                ka.push(la[i]);
                i += 1;
            }
            if j < lb.len() {
                kb.push(lb[j]);
                j += 1;
            }
        }
    }
    let (a, b) = (ka.join("\n"), kb.join("\n"));
    let (ta, tb) = (tokens(&a), tokens(&b));
    if ta.len() != tb.len() {
        return false;
    }
    for (x, y) in ta.iter().zip(tb.iter()) {
        if x.0 != y.0 {
            return false;
        }
        match (x.1, y.1) {
            (None, None) => {}
            (Some((p, dp)), Some((q, dq))) => {
                let d = dp.min(dq);
                let unit = if d > 0 { 1.0001 * 10f64.powi(-d) } else { 0.0 };
                if (p - q).abs() > unit + extra + 1e-5 * p.abs().max(q.abs()) {
                    return false;
                }
            }
            _ => return false,
        }
    }
    true
}

/// all numbers of a text, in order
pub fn numbers(s: &str) -> Vec<f64> {
    tokens(s).into_iter().filter_map(|t| t.1.map(|x| x.0)).collect()
}
