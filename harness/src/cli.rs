//! placeholder
