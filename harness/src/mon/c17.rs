//! C17 — every output format is well formed and reports the computed result.

use super::common::*;
use crate::case::{gen_case, Case, FacChoice};
use crate::cli;
use crate::gen::{GenOpts, Tri, HOSTILE_COMMENTS};
use crate::rng::Rng;
use crate::safe::{self, Out};
use crate::spec::*;
use crate::tally::Tally;
use crate::xmlwf::{self, Event};
use crate::{run_sharded, Ctx, Report};
use cteepbd::types::{Energy, EnergyPerformance, HasValues, RenNrenCo2};
use cteepbd::{cte, AsCtePlain, AsCteXml};
use serde_json::{json, Value};
use std::collections::{BTreeMap, HashMap};

const PROP: &str = "C17";

// ------------------------------------------------------------------------------------------ plain report

#[derive(Debug, Default)]
pub struct Plain {
    pub scalars: BTreeMap<String, Option<f64>>,
    pub tables: BTreeMap<String, Vec<(String, Vec<f64>)>>,
}

fn num(s: &str) -> Result<f64, String> {
    s.trim().parse::<f64>().map_err(|_| format!("not a number: {:?}", s))
}

fn r3(s: &str) -> Result<Vec<f64>, String> {
    // "ren 1.00, nren 2.00, tot: 3.00, co2: 0.10"
    let parts: Vec<&str> = s.split(", ").collect();
    if parts.len() != 4 {
        return Err(format!("expected 'ren x, nren x, tot: x, co2: x' but found {:?}", s));
    }
    let mut out = vec![];
    for (p, pre) in parts.iter().zip(["ren ", "nren ", "tot: ", "co2: "]) {
        out.push(num(p.trim().strip_prefix(pre).ok_or_else(|| format!("expected prefix {:?} in {:?}", pre, p))?)?);
    }
    Ok(out)
}

/// parse the plain report with its line grammar
pub fn parse_plain(text: &str) -> Result<Plain, String> {
    let lines: Vec<&str> = text.lines().collect();
    let mut i = 0;
    let mut p = Plain::default();
    let next = |i: &mut usize| -> Option<&str> {
        while *i < lines.len() && lines[*i].trim().is_empty() {
            *i += 1;
        }
        let l = lines.get(*i).copied();
        *i += 1;
        l
    };
    macro_rules! expect_line {
        ($pre:expr) => {{
            let l = next(&mut i).ok_or_else(|| format!("report ends before {:?}", $pre))?;
            l.strip_prefix($pre).ok_or_else(|| format!("expected a line starting with {:?}, found {:?}", $pre, l))?
        }};
    }
    macro_rules! scalar {
        ($pre:expr, $name:expr, $suffix:expr) => {{
            let rest = expect_line!($pre);
            let rest = rest.strip_suffix($suffix).ok_or_else(|| format!("expected suffix {:?} in {:?}", $suffix, rest))?;
            let v = if rest.trim() == "-" { None } else { Some(num(rest)?) };
            p.scalars.insert($name.to_string(), v);
        }};
    }
    // tables: consecutive "- key: value" lines (a blank line ends the table)
    let table = |i: &mut usize, triple: bool| -> Result<Vec<(String, Vec<f64>)>, String> {
        let mut rows = vec![];
        // skip the single blank line? tables start on the line right after their header
        while *i < lines.len() && !lines[*i].trim().is_empty() {
            let l = lines[*i];
            let body = l.strip_prefix("- ").ok_or_else(|| format!("expected a table row '- key: value', found {:?}", l))?;
            let (k, v) = body.split_once(": ").ok_or_else(|| format!("table row without ': ': {:?}", l))?;
            rows.push((k.to_string(), if triple { r3(v)? } else { vec![num(v)?] }));
            *i += 1;
        }
        Ok(rows)
    };
    expect_line!("** Eficiencia energética");
    scalar!("Area_ref = ", "area", " [m2]");
    scalar!("k_exp = ", "k_exp", "");
    {
        let rest = expect_line!("C_ep [kWh/m2.an]: ");
        let parts: Vec<&str> = rest.split(", ").collect();
        if parts.len() != 3 {
            return Err(format!("C_ep line: {:?}", rest));
        }
        for (q, (pre, name)) in parts.iter().zip([("ren = ", "cep_ren"), ("nren = ", "cep_nren"), ("tot = ", "cep_tot")]) {
            p.scalars.insert(name.to_string(), Some(num(q.strip_prefix(pre).ok_or_else(|| format!("C_ep line: {:?}", rest))?)?));
        }
    }
    scalar!("E_CO2 [kg_CO2e/m2.an]: ", "co2", "");
    scalar!("RER = ", "rer", "");
    scalar!("RER_nrb = ", "rer_nrb", "");
    expect_line!("** Demanda [kWh/m2.an]:");
    scalar!("- ACS: ", "needs_ACS", "");
    scalar!("- CAL: ", "needs_CAL", "");
    scalar!("- REF: ", "needs_REF", "");
    expect_line!("** Energía final (todos los vectores) [kWh/m2.an]:");
    scalar!("Energía consumida: ", "used", "");
    scalar!("+ Consumida en usos EPB: ", "epus", "");
    expect_line!("* por servicio:");
    p.tables.insert("used_by_srv".into(), table(&mut i, false)?);
    expect_line!("* por vector:");
    p.tables.insert("used_by_cr".into(), table(&mut i, false)?);
    scalar!("+ Consumida en usos no EPB: ", "nepus", "");
    scalar!("+ Consumida en cogeneración: ", "cgnus", "");
    scalar!("Generada: ", "prod", "");
    expect_line!("* por vector:");
    p.tables.insert("prod_by_cr".into(), table(&mut i, false)?);
    expect_line!("* por origen:");
    p.tables.insert("prod_by_src".into(), table(&mut i, false)?);
    expect_line!("* generada y usada en servicios EPB, por origen:");
    p.tables.insert("prod_epus_by_src".into(), table(&mut i, false)?);
    scalar!("Suministrada ", "del", ":");
    scalar!("- de red: ", "del_grid", "");
    scalar!("- in situ: ", "del_onst", "");
    scalar!("Exportada: ", "exp", "");
    scalar!("- a la red: ", "exp_grid", "");
    scalar!("- a usos no EPB: ", "exp_nepus", "");
    expect_line!("** Energía primaria (ren, nren) [kWh/m2.an] y emisiones [kg_CO2e/m2.an]:");
    {
        let rest = expect_line!("Recursos utilizados (paso A): ");
        p.tables.insert("we_a".into(), vec![("total".into(), r3(rest)?)]);
    }
    expect_line!("* por servicio:");
    p.tables.insert("a_by_srv".into(), table(&mut i, true)?);
    {
        let rest = expect_line!("Incluyendo el efecto de la energía exportada (paso B): ");
        p.tables.insert("we_b".into(), vec![("total".into(), r3(rest)?)]);
    }
    expect_line!("* por servicio:");
    p.tables.insert("b_by_srv".into(), table(&mut i, true)?);
    if let Some(l) = next(&mut i) {
        if l != "** Indicadores adicionales" {
            return Err(format!("unexpected text after the tables: {:?}", l));
        }
        scalar!("Porcentaje renovable de la demanda de ACS (perímetro próximo): ", "acs_pct", " [%]");
        if let Some(l) = next(&mut i) {
            return Err(format!("unexpected trailing text: {:?}", l));
        }
    }
    Ok(p)
}

fn printed_ok(printed: f64, v: f64, decimals: i32) -> bool {
    if !v.is_finite() {
        return true; // NaN / inf are outside the property's quantifier
    }
    (printed - v).abs() <= 0.5 * 10f64.powi(-decimals) + 4e-7 * v.abs() + 1e-12
}

fn check_plain(ep: &EnergyPerformance, text: &str, acs: &Out<f32>, t: &mut Tally, wit: &dyn Fn(Value) -> Value) {
    let p = match parse_plain(text) {
        Ok(p) => p,
        Err(e) => {
            t.violation("C17.plain_report_malformed", format!("the plain report does not follow its template: {e}"), || wit(json!({"report": text})));
            return;
        }
    };
    let b = &ep.balance_m2;
    let used_mag = (b.used.epus.abs() + b.used.nepus.abs() + b.used.cgnus.abs()) as f64;
    let bad = |name: &str, printed: Option<f64>, v: Option<f64>, d: i32, t: &mut Tally| {
        let ok = match (printed, v) {
            // "consumed" is an f32 sum of three printed terms: rounding relative to their magnitudes
            (Some(p), Some(v)) if name == "consumed" => (p - v).abs() <= 0.5 * 10f64.powi(-d) + 3e-7 * used_mag,
            (Some(p), Some(v)) => printed_ok(p, v, d),
            (None, None) => true,
            _ => false,
        };
        t.count("plain_numbers_checked");
        if !ok {
            t.violation("C17.plain_report_number", format!("plain report states {name} = {:?} but the result has {:?} (printed with {d} decimals)", printed, v), || wit(json!({"field": name, "report": text})));
        }
    };
    let s = |k: &str| p.scalars.get(k).copied().flatten();
    let f = |x: f32| Some(x as f64);
    bad("Area_ref", s("area"), f(ep.arearef), 2, t);
    bad("k_exp", s("k_exp"), f(ep.k_exp), 2, t);
    bad("C_ep ren", s("cep_ren"), f(b.we.b.ren), 1, t);
    bad("C_ep nren", s("cep_nren"), f(b.we.b.nren), 1, t);
    bad("C_ep tot", s("cep_tot"), f(b.we.b.tot()), 1, t);
    bad("E_CO2", s("co2"), f(b.we.b.co2), 2, t);
    bad("RER", s("rer"), f(ep.rer), 2, t);
    bad("RER_nrb", s("rer_nrb"), f(ep.rer_nrb), 2, t);
    bad("demand ACS", s("needs_ACS"), b.needs.ACS.map(|x| x as f64), 1, t);
    bad("demand CAL", s("needs_CAL"), b.needs.CAL.map(|x| x as f64), 1, t);
    bad("demand REF", s("needs_REF"), b.needs.REF.map(|x| x as f64), 1, t);
    bad("consumed", s("used"), Some(b.used.epus as f64 + b.used.nepus as f64 + b.used.cgnus as f64), 2, t);
    bad("consumed EPB", s("epus"), f(b.used.epus), 2, t);
    bad("consumed non-EPB", s("nepus"), f(b.used.nepus), 2, t);
    bad("consumed cogeneration", s("cgnus"), f(b.used.cgnus), 2, t);
    bad("produced", s("prod"), f(b.prod.an), 2, t);
    bad("delivered", s("del"), f(b.del.an), 2, t);
    bad("delivered grid", s("del_grid"), f(b.del.grid), 2, t);
    bad("delivered on-site", s("del_onst"), f(b.del.onst), 2, t);
    bad("exported", s("exp"), f(b.exp.an), 2, t);
    bad("exported grid", s("exp_grid"), f(b.exp.grid), 2, t);
    bad("exported non-EPB", s("exp_nepus"), f(b.exp.nepus), 2, t);
    // tables
    fn m1<K: std::fmt::Display>(h: &HashMap<K, f32>) -> BTreeMap<String, Vec<f64>> {
        h.iter().map(|(k, v)| (k.to_string(), vec![*v as f64])).collect()
    }
    fn m3<K: std::fmt::Display>(h: &HashMap<K, RenNrenCo2>) -> BTreeMap<String, Vec<f64>> {
        h.iter().map(|(k, v)| (k.to_string(), vec![v.ren as f64, v.nren as f64, v.tot() as f64, v.co2 as f64])).collect()
    }
    let mut total = BTreeMap::new();
    total.insert("total".to_string(), vec![b.we.a.ren as f64, b.we.a.nren as f64, b.we.a.tot() as f64, b.we.a.co2 as f64]);
    let mut total_b = BTreeMap::new();
    total_b.insert("total".to_string(), vec![b.we.b.ren as f64, b.we.b.nren as f64, b.we.b.tot() as f64, b.we.b.co2 as f64]);
    let tables: Vec<(&str, BTreeMap<String, Vec<f64>>)> = vec![
        ("used_by_srv", m1(&b.used.epus_by_srv)),
        ("used_by_cr", m1(&b.used.epus_by_cr)),
        ("prod_by_cr", m1(&b.prod.by_cr)),
        ("prod_by_src", m1(&b.prod.by_src)),
        ("prod_epus_by_src", m1(&b.prod.epus_by_src)),
        ("we_a", total),
        ("a_by_srv", m3(&b.we.a_by_srv)),
        ("we_b", total_b),
        ("b_by_srv", m3(&b.we.b_by_srv)),
    ];
    for (name, want) in tables {
        let rows = p.tables.get(name).cloned().unwrap_or_default();
        let keys: Vec<&String> = rows.iter().map(|r| &r.0).collect();
        let mut sorted = keys.clone();
        sorted.sort();
        if keys != sorted {
            t.violation("C17.plain_table_not_sorted", format!("rows of table {name} are not in sorted order: {:?}", keys), || wit(json!({"table": name, "report": text})));
        }
        let wk: Vec<&String> = want.keys().collect();
        if sorted != wk {
            t.violation("C17.plain_table_keys", format!("table {name} lists {:?} but the result has {:?}", sorted, wk), || wit(json!({"table": name, "report": text})));
            continue;
        }
        for (k, vals) in &rows {
            let w = &want[k];
            if vals.len() != w.len() || !vals.iter().zip(w.iter()).all(|(p, v)| printed_ok(*p, *v, 2)) {
                t.violation("C17.plain_report_number", format!("table {name}, row {k}: printed {:?}, result {:?}", vals, w), || wit(json!({"table": name, "row": k, "report": text})));
            }
            t.add("plain_numbers_checked", vals.len() as u64);
        }
    }
    // DHW percentage
    match (acs, p.scalars.get("acs_pct")) {
        (Out::Ok(v), Some(Some(pct))) => {
            if v.is_finite() && (pct - 100.0 * *v as f64).abs() > 0.1001 + 1e-4 * pct.abs() {
                t.violation("C17.plain_report_number", format!("plain report states a renewable DHW percentage of {pct} but the fraction is {v}"), || wit(json!({"report": text})));
            }
        }
        (Out::Err(..), Some(None)) => {}
        (_, None) => {} // report rendered without the indicator
        (a, b) => {
            if !matches!(a, Out::Ok(v) if !v.is_finite()) {
                t.violation("C17.plain_report_number", format!("DHW indicator: computed {}, printed {:?}", a.describe(), b), || wit(json!({"report": text})));
            }
        }
    }
}

// ------------------------------------------------------------------------------------------ XML

fn xml_text_expected(s: &str) -> String {
    // escape_xml maps '\' to &apos; (odd but well-formed, see DESIGN §5): the text read back has "'" there
    s.replace('\\', "'")
}

fn check_xml(ctx: &Ctx, ep: &EnergyPerformance, xml: &str, second_opinion: bool, t: &mut Tally, wit: &dyn Fn(Value) -> Value) {
    let ev = match xmlwf::parse(xml) {
        Ok(ev) => ev,
        Err(e) => {
            t.violation("C17.xml_not_well_formed", format!("XML output is not well-formed: {e}"), || wit(json!({"xml": xml})));
            if second_opinion {
                if let Some(true) = xmlwf::expat_says_well_formed(&ctx.verif, xml) {
                    t.harness_error(format!("xmlwf rejects a document expat accepts: {e}"));
                }
            }
            return;
        }
    };
    t.count("xml_documents_well_formed");
    if second_opinion {
        match xmlwf::expat_says_well_formed(&ctx.verif, xml) {
            Some(true) => t.count("xml_documents_confirmed_by_expat"),
            Some(false) => t.harness_error("expat rejects a document xmlwf accepts".into()),
            None => t.count("expat_unavailable"),
        }
    }
    let first = |name: &str| xmlwf::texts_of(&ev, name).into_iter().next();
    let numeq = |name: &str, txt: Option<String>, v: f64, d: i32, t: &mut Tally| {
        let ok = txt.as_ref().and_then(|s| s.trim().parse::<f64>().ok()).map(|p| printed_ok(p, v, d)).unwrap_or(!v.is_finite());
        if !ok {
            t.violation("C17.xml_number", format!("XML states <{name}> = {:?} but the result has {v}", txt), || wit(json!({"element": name, "xml": xml})));
        }
    };
    numeq("kexp", first("kexp"), ep.k_exp as f64, 2, t);
    numeq("AreaRef", first("AreaRef"), ep.arearef as f64, 2, t);
    let b = &ep.balance_m2.we.b;
    numeq("Epm2/tot", first("tot"), (b.ren + b.nren) as f64, 1, t);
    numeq("Epm2/nren", xmlwf::texts_of(&ev, "nren").into_iter().last(), b.nren as f64, 1, t);
    // element counts = component / factor / metadata counts
    let c = &ep.components;
    let counts = [
        ("Consumo", c.data.iter().filter(|e| e.is_used()).count()),
        ("Produccion", c.data.iter().filter(|e| e.is_generated()).count()),
        ("EAux", c.data.iter().filter(|e| e.is_aux()).count()),
        ("Salida", c.data.iter().filter(|e| e.is_out()).count()),
        ("Demanda", [&c.needs.ACS, &c.needs.CAL, &c.needs.REF].iter().filter(|x| x.is_some()).count()),
        ("Factor", ep.wfactors.wdata.len()),
        ("Metadato", c.meta.len() + ep.wfactors.wmeta.len()),
    ];
    for (name, want) in counts {
        let got = xmlwf::count(&ev, name);
        if got != want {
            t.violation("C17.xml_element_count", format!("XML has {got} <{name}> elements, the result has {want}"), || wit(json!({"element": name, "xml": xml})));
        }
    }
    // values of every component, in order
    let vals = xmlwf::texts_of(&ev, "Valores");
    let mut want_vals: Vec<Vec<f32>> = c.data.iter().map(|e| e.values().to_vec()).collect();
    for nd in [&c.needs.ACS, &c.needs.CAL, &c.needs.REF].into_iter().flatten() {
        want_vals.push(nd.clone());
    }
    if vals.len() == want_vals.len() {
        for (txt, w) in vals.iter().zip(want_vals.iter()) {
            let got: Vec<Option<f64>> = if txt.trim().is_empty() { vec![] } else { txt.split(',').map(|x| x.trim().parse::<f64>().ok()).collect() };
            let ok = got.len() == w.len() && got.iter().zip(w.iter()).all(|(g, v)| g.map(|g| printed_ok(g, *v as f64, 2)).unwrap_or(!v.is_finite()));
            if !ok {
                t.violation("C17.xml_values", format!("XML <Valores>{txt}</Valores> does not state the component's values {:?}", w), || wit(json!({"xml": xml})));
                break;
            }
        }
    } else {
        t.violation("C17.xml_element_count", format!("XML has {} <Valores> elements for {} components and demands", vals.len(), want_vals.len()), || wit(json!({"xml": xml})));
    }
    // tags of every component and factor, in document order (factors come first in the document)
    {
        let f = &ep.wfactors.wdata;
        let mut want: Vec<(&str, Vec<String>)> = vec![];
        want.push(("Id", c.data.iter().map(|e| e.id().to_string()).collect()));
        let mut vectors: Vec<String> = f.iter().map(|x| x.carrier.to_string()).collect();
        vectors.extend(c.data.iter().filter_map(|e| match e { Energy::Used(u) => Some(u.carrier.to_string()), _ => None }));
        want.push(("Vector", vectors));
        let mut origins: Vec<String> = f.iter().map(|x| x.source.to_string()).collect();
        origins.extend(c.data.iter().filter_map(|e| match e { Energy::Prod(p) => Some(p.source.to_string()), _ => None }));
        want.push(("Origen", origins));
        let mut services: Vec<String> = c.data.iter().filter_map(|e| match e { Energy::Used(u) => Some(u.service.to_string()), Energy::Aux(a) => Some(a.service.to_string()), Energy::Out(o) => Some(o.service.to_string()), _ => None }).collect();
        for (srv, nd) in [("ACS", &c.needs.ACS), ("CAL", &c.needs.CAL), ("REF", &c.needs.REF)] {
            if nd.is_some() {
                services.push(srv.to_string());
            }
        }
        want.push(("Servicio", services));
        want.push(("Destino", f.iter().map(|x| x.dest.to_string()).collect()));
        want.push(("Paso", f.iter().map(|x| x.step.to_string()).collect()));
        for (tag, w) in want {
            let got = xmlwf::texts_of(&ev, tag);
            if got != w {
                let i = got.iter().zip(w.iter()).position(|(a, b)| a != b).unwrap_or(got.len().min(w.len()));
                t.violation("C17.xml_tags", format!("XML <{tag}> sequence differs from the result at position {i}: {:?} vs {:?} ({} vs {} elements)", got.get(i), w.get(i), got.len(), w.len()), || wit(json!({"element": tag, "xml": xml})));
            }
        }
        // factor values at three decimals
        for (tag, vals) in [("ren", f.iter().map(|x| x.ren).collect::<Vec<f32>>()), ("nren", f.iter().map(|x| x.nren).collect()), ("co2", f.iter().map(|x| x.co2).collect())] {
            let got = xmlwf::texts_of(&ev, tag);
            let n = vals.len();
            if got.len() < n || !got.iter().take(n).zip(vals.iter()).all(|(g, v)| g.trim().parse::<f64>().map(|p| printed_ok(p, *v as f64, 3)).unwrap_or(!v.is_finite())) {
                t.violation("C17.xml_number", format!("XML factor values <{tag}> do not state the factors of the result at three decimals"), || wit(json!({"element": tag, "xml": xml})));
            }
        }
        t.count("xml_tag_sequences_checked");
    }
    // comments and metadata survive escaping
    let mut want_comments: Vec<String> = c.data.iter().map(|e| e.comment().to_string()).filter(|s| !s.is_empty()).map(|s| xml_text_expected(&s)).collect();
    want_comments.extend(ep.wfactors.wdata.iter().map(|f| f.comment.clone()).filter(|s| !s.is_empty()).map(|s| xml_text_expected(&s)));
    let mut got_comments = xmlwf::texts_of(&ev, "Comentario");
    want_comments.sort();
    got_comments.sort();
    if want_comments != got_comments {
        let miss: Vec<&String> = want_comments.iter().filter(|x| !got_comments.contains(x)).take(3).collect();
        t.violation("C17.xml_text_altered", format!("comments read back from the XML differ from the components' comments; e.g. {:?}", miss), || wit(json!({"xml": xml})));
    }
    let mut want_meta: Vec<(String, String)> = c.meta.iter().chain(ep.wfactors.wmeta.iter()).map(|m| (xml_text_expected(&m.key), xml_text_expected(&m.value))).collect();
    let mut got_meta: Vec<(String, String)> = xmlwf::texts_of(&ev, "Clave").into_iter().zip(xmlwf::texts_of(&ev, "Valor")).collect();
    want_meta.sort();
    got_meta.sort();
    if want_meta != got_meta {
        t.violation("C17.xml_text_altered", format!("metadata read back from the XML {:?} differ from {:?}", got_meta, want_meta), || wit(json!({"xml": xml})));
    }
    let _ = Event::Start(String::new());
}

// ------------------------------------------------------------------------------------------ JSON

fn check_json(ep: &EnergyPerformance, t: &mut Tally, wit: &dyn Fn(Value) -> Value) {
    for pretty in [false, true] {
        let js = match safe::guard_plain(|| if pretty { serde_json::to_string_pretty(ep) } else { serde_json::to_string(ep) }) {
            Out::Ok(Ok(s)) => s,
            Out::Ok(Err(e)) => {
                t.violation("C17.json_not_produced", format!("serialisation to JSON fails: {e}"), || wit(json!({})));
                return;
            }
            Out::Panic(m) => {
                t.violation("C17.json_not_produced", format!("serialisation to JSON panicked: {m}"), || wit(json!({})));
                return;
            }
            _ => return,
        };
        if let Err(e) = serde_json::from_str::<Value>(&js) {
            t.violation("C17.json_invalid", format!("the JSON document is not valid JSON: {e}"), || wit(json!({"json": js})));
            return;
        }
        let back: EnergyPerformance = match serde_json::from_str(&js) {
            Ok(b) => b,
            Err(e) => {
                t.violation("C17.json_cannot_be_read_back", format!("the JSON document cannot be read back into a result: {e}"), || wit(json!({"json": js.chars().take(3000).collect::<String>()})));
                return;
            }
        };
        let (f1, f2) = (flat(ep), flat(&back));
        if f1.len() != f2.len() {
            t.violation("C17.json_read_back_differs", format!("result read back from JSON has {} numeric fields instead of {}", f2.len(), f1.len()), || wit(json!({})));
        }
        for (p, v) in &f1 {
            let Some(v2) = f2.get(p) else {
                t.violation("C17.json_read_back_differs", format!("{p} is lost in the JSON round trip"), || wit(json!({"path": p})));
                break;
            };
            let rounded = p.ends_with(".ren") || p.ends_with(".nren") || p.ends_with(".co2");
            let ok = if rounded { (v - v2).abs() <= 5.0e-4 + 2.5e-7 * v.abs() } else { v.to_bits() == v2.to_bits() };
            if !ok {
                t.violation("C17.json_read_back_differs", format!("{p}: {v} in the result, {v2} after the JSON round trip"), || wit(json!({"path": p})));
                break;
            }
        }
        t.add("json_fields_round_tripped", f1.len() as u64);
        // inputs and misc
        let same_inputs = serde_json::to_value(&ep.components).ok() == serde_json::to_value(&back.components).ok()
            && serde_json::to_value(&ep.wfactors).ok() == serde_json::to_value(&back.wfactors).ok()
            && serde_json::to_value(&ep.misc).ok() == serde_json::to_value(&back.misc).ok();
        if !same_inputs {
            t.violation("C17.json_read_back_differs", "components, factors or indicators differ after the JSON round trip".into(), || wit(json!({})));
        }
    }
}

// ------------------------------------------------------------------------------------------ the monitor

fn render_all(text: &str, case: &Case, strip: bool) -> Option<(EnergyPerformance, String, String, String)> {
    let comps = safe::parse_components(text).ok()?;
    let fac = safe::guard(|| case.fac.build()).ok()?;
    let fac = if strip { safe::guard_plain(|| fac.clone().strip(&comps)).ok()? } else { fac };
    let ep = safe::eval(&comps, &fac, case.k, case.area, case.lm).ok()?;
    // (a library panic in here is reported by check_case, which makes the same calls one by one under a guard)
    safe::guard_plain(move || {
        let ep = cte::incorpora_demanda_renovable_acs_nrb(ep);
        let plain = ep.to_plain();
        let xml = ep.to_xml();
        let js = serde_json::to_string_pretty(&ep).ok()?;
        Some((ep, plain, xml, js))
    })
    .ok()?
}

fn sorted_lines(s: &str) -> String {
    let mut l: Vec<&str> = s.lines().map(|x| x.trim()).collect();
    l.sort();
    l.join("\n")
}

pub fn check_case(ctx: &Ctx, case: &Case, idx: u64, with_cli: bool, t: &mut Tally) {
    let text = case.spec.to_text();
    let wit = |extra: Value| {
        let mut w = case.witness();
        w["observed"] = extra;
        w
    };
    let Some((comps, fac)) = prepare(PROP, case, t) else { return };
    let Some(ep) = eval(PROP, case, &comps, &fac, case.k, case.area, case.lm, t) else { return };
    let ep = match safe::guard_plain(|| cte::incorpora_demanda_renovable_acs_nrb(ep.clone())) {
        Out::Ok(e) => e,
        Out::Panic(m) => {
            t.violation("C17.rendering_panicked", format!("incorpora_demanda_renovable_acs_nrb panicked on a computed result: {m}"), || wit(json!({})));
            return;
        }
        _ => ep,
    };
    let acs = safe::guard(|| cte::fraccion_renovable_acs_nrb(&ep));
    // plain
    match safe::guard_plain(|| ep.to_plain()) {
        Out::Ok(p) => check_plain(&ep, &p, &acs, t, &wit),
        Out::Panic(m) => t.violation("C17.rendering_panicked", format!("to_plain panicked: {m}"), || wit(json!({}))),
        _ => {}
    }
    // XML
    match safe::guard_plain(|| ep.to_xml()) {
        Out::Ok(x) => check_xml(ctx, &ep, &x, idx % 50 == 0, t, &wit),
        Out::Panic(m) => t.violation("C17.rendering_panicked", format!("to_xml panicked: {m}"), || wit(json!({}))),
        _ => {}
    }
    // JSON
    check_json(&ep, t, &wit);
    // determinism across runs
    let mut rf = ref_eval_parsed(&comps, &fac, case.k, case.area, case.lm).unwrap_or_default();
    {
        // the reference model only mirrors the library for non-negative inputs; this workload also has negated
        // consumptions, where the library's own figures must say whether the total is rounding noise of the
        // delivered / exported terms that cancel in it (any RER is noise then)
        let (b, d, x) = (&ep.balance.we.b, &ep.balance.we.del, &ep.balance.we.exp);
        let tot = (b.ren as f64 + b.nren as f64).abs();
        let mag = d.ren.abs() as f64 + d.nren.abs() as f64 + x.ren.abs() as f64 + x.nren.abs() as f64;
        if tot <= 1e-4 * mag {
            for k in ["rer", "rer_nrb", "rer_onst"] {
                rf.insert(k.to_string(), crate::refmodel::V { v: 0.0, s: f64::INFINITY });
            }
            t.count("cases_with_total_that_is_rounding_noise");
        }
        // likewise a carrier whose EPB use is a rounding residue of its by-service terms (a negated line that
        // cancels the others): whether the carrier 'is used' - and with it the DHW indicator - is decided by the
        // summation order
        let residue = ep.balance_cr.values().any(|b| {
            let terms: f64 = b.used.epus_by_srv_an.values().map(|x| x.abs() as f64).sum();
            terms > 0.0 && (b.used.epus_an.abs() as f64) < 1e-5 * terms
        });
        if residue {
            rf.insert(DHW_KEY.to_string(), crate::refmodel::V { v: 0.0, s: f64::INFINITY });
            t.count("cases_with_carrier_use_that_is_rounding_noise");
        }
    }
    // A negated input line (this workload's way to get negative results printed) can cancel the other uses of
    // a carrier exactly, at a step or over the year; shares divided by such a residue differ between runs by far
    // more than any rounding band (0 vs 0.0034 kWh at one step, RER 31.85 vs 31.02). For those buildings the
    // run-to-run comparison keeps the structure and order of every output and leaves the numbers out.
    let negated = case.spec.lines.iter().any(|l| !matches!(l, Line::Out { .. }) && l.values().iter().any(|x| *x < 0.0));
    let slack = if negated { f64::INFINITY } else { report_slack(&rf) };
    if negated {
        t.count("cases_with_negated_inputs_compared_by_structure_only");
    }
    if let Some((_, p0, x0, j0)) = render_all(&text, case, false) {
        for _ in 0..2 {
            t.evaluations += 1;
            let Some((_, p1, x1, j1)) = safe::fresh_thread(|| render_all(&text, case, false)) else {
                t.violation("C17.output_varies_between_runs", "a repeated evaluation of the same file does not produce output".into(), || wit(json!({})));
                break;
            };
            if !cli::reports_equal(&comparable_report(&p0, &rf), &comparable_report(&p1, &rf), slack) {
                t.violation("C17.output_varies_between_runs", "the plain report of two evaluations of the same file differs (order or content)".into(), || wit(json!({"first": p0, "second": p1})));
                break;
            }
            if !cli::reports_equal(&sorted_lines(&x0), &sorted_lines(&x1), slack) {
                t.violation("C17.output_varies_between_runs", "the XML of two evaluations of the same file differs beyond the order of regenerated auxiliary components".into(), || wit(json!({"first": x0, "second": x1})));
                break;
            }
            match (serde_json::from_str::<Value>(&j0), serde_json::from_str::<Value>(&j1)) {
                (Ok(a), Ok(b)) => {
                    let dhw = dhw_noise_band(&case.spec).1;
                    if let Some(d) = super::c10::json_diff(&a, &b, "", &|p| if negated { f64::INFINITY } else if p.contains("fraccion_renovable") { dhw.max(json_band(&rf, p)) } else { json_band(&rf, p) }) {
                        t.violation("C17.output_varies_between_runs", format!("the JSON of two evaluations of the same file differs: {d}"), || wit(json!({})));
                        break;
                    }
                }
                _ => {}
            }
            t.count("repeated_renderings_compared");
        }
    }
    // process level
    if with_cli {
        if let Some(bin) = &ctx.cli_debug {
            cli_outputs(bin, case, &text, slack, &rf, t);
        }
    }
    let hostile = case.spec.lines.iter().any(|l| l.comment().chars().any(|c| "<>&\"'\\".contains(c) || !c.is_ascii())) || case.spec.meta.iter().any(|(k, v)| k.chars().chain(v.chars()).any(|c| "<>&\"'\\".contains(c) || !c.is_ascii()));
    if hostile {
        t.count("cases_with_hostile_strings");
    }
    if case.spec.lines.iter().any(|l| matches!(l, Line::Need { .. })) {
        t.count("cases_with_demands");
    } else {
        t.count("cases_without_demands");
    }
    if !case.spec.lines.iter().any(|l| matches!(l, Line::Used { srv, .. } if EPB.contains(&srv.as_str()))) {
        t.count("cases_without_any_epb_use");
    }
    if hostile || carriers_of(&flat(&ep)).len() >= 3 {
        t.nontrivial(case.hash());
        t.sample(|| {
            let mut s = short_case(case);
            s["plain_report_head"] = json!(ep.to_plain().lines().take(8).collect::<Vec<_>>());
            s
        });
    }
}

fn cli_outputs(bin: &std::path::Path, case: &Case, text: &str, slack: f64, rf: &crate::refmodel::RefOut, t: &mut Tally) {
    let dir = cli::scratch_dir("c17");
    let cpath = dir.join("c.csv");
    let _ = std::fs::write(&cpath, text);
    let mut args: Vec<String> = vec!["-c".into(), cpath.display().to_string(), "-a".into(), format!("{}", case.area), "-k".into(), format!("{}", case.k)];
    match &case.fac {
        FacChoice::Loc { loc, red1, red2 } => {
            args.push("-l".into());
            args.push(loc.clone());
            for (name, v) in [("--red1", red1), ("--red2", red2)] {
                if let Some(v) = v {
                    args.push(name.into());
                    for x in v {
                        args.push(format!("{x}"));
                    }
                }
            }
        }
        FacChoice::User { text, red1: _, red2: _ } => {
            let fpath = dir.join("f.csv");
            let _ = std::fs::write(&fpath, text);
            args.push("-f".into());
            args.push(fpath.display().to_string());
        }
    }
    if case.lm {
        args.push("--load_matching".into());
    }
    let (pj, px, pt) = (dir.join("o.json"), dir.join("o.xml"), dir.join("o.txt"));
    // the output paths may exist already, holding a longer document of an earlier run (fixed file names reused for a
    // big building and then a small one): what is written must replace it, not overlay its beginning
    if crate::spec::fnv(text.as_bytes()) % 2 == 0 {
        let filler = "<resto de un documento anterior> {\"x\": [1, 2, 3]} ".repeat((text.len() * 40 + (1 << 20)) / 48);
        for p in [&pj, &px, &pt] {
            let _ = std::fs::write(p, &filler);
        }
        t.count("cli_runs_over_existing_longer_output_files");
    }
    for (o, p) in [("--json", &pj), ("--xml", &px), ("--txt", &pt)] {
        args.push(o.into());
        args.push(p.display().to_string());
    }
    let res = cli::run(bin, &args, 20_000);
    t.evaluations += 1;
    let wit = || {
        let mut w = case.witness();
        w["argv"] = json!(args);
        w["stderr"] = json!(res.stderr.chars().take(1000).collect::<String>());
        w
    };
    if res.timed_out {
        t.count("cli_timeouts_inconclusive");
    } else if res.code == Some(0) {
        let files = (std::fs::read_to_string(&pj), std::fs::read_to_string(&px), std::fs::read_to_string(&pt));
        match files {
            (Ok(j), Ok(x), Ok(txt)) => {
                let stdout_report = res.stdout.split("\n\n** Eficiencia energética").nth(1).map(|s| format!("** Eficiencia energética{s}"));
                if stdout_report.as_deref().map(|s| s.trim_end()) != Some(txt.trim_end()) {
                    t.violation("C17.cli_txt_is_not_the_printed_report", "the file written with --txt is not the report printed on stdout".into(), wit);
                }
                if let Err(e) = xmlwf::parse(&x) {
                    t.violation("C17.xml_not_well_formed", format!("the file written with --xml is not well-formed: {e}"), wit);
                }
                if serde_json::from_str::<EnergyPerformance>(&j).is_err() {
                    t.violation("C17.json_cannot_be_read_back", "the file written with --json cannot be read back into a result".into(), wit);
                }
                // the in-process rendering of the same pipeline (user RED1/RED2 of a file-based set are not passed on the command line)
                let mut c2 = case.clone();
                if let FacChoice::User { red1, red2, .. } = &mut c2.fac {
                    *red1 = None;
                    *red2 = None;
                }
                if let Some((_, p, xml2, _)) = render_all(text, &c2, true) {
                    if !cli::reports_equal(&comparable_report(txt.trim_end(), rf), &comparable_report(p.trim_end(), rf), slack) {
                        t.violation("C17.cli_report_is_not_the_library_rendering", "the report written by the program differs from the library's rendering of the same evaluation".into(), || {
                            let mut w = wit();
                            w["program"] = json!(txt);
                            w["library"] = json!(p);
                            w
                        });
                    }
                    // the program records the effective options in the components' metadata: same element counts otherwise
                    let (a, b) = (xmlwf::parse(&x).map(|e| xmlwf::count(&e, "Consumo") + xmlwf::count(&e, "EAux")), xmlwf::parse(&xml2).map(|e| xmlwf::count(&e, "Consumo") + xmlwf::count(&e, "EAux")));
                    if a.ok() != b.ok() {
                        t.violation("C17.cli_report_is_not_the_library_rendering", "the XML written by the program has other components than the library's rendering".into(), wit);
                    }
                }
                t.count("cli_output_sets_checked");
            }
            _ => t.violation("C17.cli_output_file_missing", "exit code 0 but one of the --json / --xml / --txt files was not written".into(), wit),
        }
    } else {
        // the library evaluated this very building (the caller got a result): a program that does not produce the
        // three documents for it - usage error, refusal, crash - fails the property at the first step
        t.violation(
            "C17.cli_produces_no_documents",
            format!("the library evaluates the building but `cteepbd ... --json --xml --txt` exits with {:?} (signal {:?}): {}", res.code, res.signal, res.stderr.lines().next().unwrap_or("")),
            wit,
        );
    }
    let _ = std::fs::remove_dir_all(&dir);
}

pub fn gen_output_case(r: &mut Rng, thorough: bool) -> Case {
    let mut o = GenOpts::default();
    o.hostile_comments = true;
    o.meta = true;
    o.demands = if r.chance(1, 2) { Tri::Always } else { Tri::Maybe };
    o.long_steps = thorough;
    let mut case = gen_case(r, &o, 30);
    // hostile metadata and comments everywhere
    if r.chance(1, 2) {
        for _ in 0..1 + r.usize(3) {
            let k = format!("{}{}", r.pick(&["Nota", "Autor <a&b>", "clave \"x\"", "ruta\\dir", "ñ"]), r.below(100));
            case.spec.meta.push((k, r.pick(&HOSTILE_COMMENTS).trim().replace('\t', " ")));
        }
    }
    // a building without any EPB use (only non-EPB consumption, or only production): empty tables everywhere
    if r.chance(1, 25) {
        crate::gen::without_epb_use(&mut case.spec, r);
    }
    // a file that declares delivered energy and needs only (no consumption, production or auxiliaries): it evaluates, no
    // carrier takes part, every table and map is empty
    if r.chance(1, 40) {
        use crate::spec::Line;
        case.spec.lines.retain(|l| matches!(l, Line::Out { .. } | Line::Need { .. }));
        if !case.spec.lines.iter().any(|l| matches!(l, Line::Out { .. })) {
            case.spec.lines.push(Line::Out { id: 1, srv: "CAL".into(), v: vec![10.0; case.spec.n], comment: String::new() });
        }
        return case;
    }
    // several biomass DHW systems (either kind of biomass) without declared output: the error text saved in the
    // JSON / printed in the report must be the same on every run
    if r.chance(1, 25) {
        crate::gen::plant_undeclared_biomass_dhw(&mut case.spec, r);
    }
    // negative and large values
    match r.below(8) {
        0 => {
            let i = r.usize(case.spec.lines.len());
            case.spec.lines[i].values_mut().iter_mut().for_each(|x| *x = -*x);
        }
        1 => {
            let c = *r.pick(&[1e3f32, 1e6, 1e9, 1e12, 1e13]);
            case.spec = case.spec.scaled(c);
        }
        _ => {}
    }
    case
}

pub fn run(ctx: &Ctx) -> Report {
    let total = ctx.cases(6_000, 250_000);
    let cli_every = if ctx.thorough() { 120 } else { 60 };
    let thorough = ctx.thorough();
    let tally = run_sharded(ctx, total, |idx, r, t| {
        if idx == 1 && ctx.cli_debug.is_some() {
            // one hourly year through the program: its documents are several MiB long (a size-dependent loss - a
            // truncated or partly written file - shows only there)
            let mut o = GenOpts::default();
            o.steps = Some(8760);
            o.demands = Tri::Always;
            o.cogen = Tri::Always;
            let big = gen_case(r, &o, 30);
            check_case(ctx, &big, idx, true, t);
            t.count("hourly_year_through_the_program");
            return;
        }
        let case = gen_output_case(r, thorough);
        check_case(ctx, &case, idx, idx % cli_every == 0, t);
    });
    let mut quotas = vec![
        ("xml_documents_well_formed".to_string(), tally.get("xml_documents_well_formed"), 2000),
        ("xml_documents_confirmed_by_expat".to_string(), tally.get("xml_documents_confirmed_by_expat"), 20),
        ("plain_numbers_checked".to_string(), tally.get("plain_numbers_checked"), 50_000),
        ("json_fields_round_tripped".to_string(), tally.get("json_fields_round_tripped"), 100_000),
        ("cases_with_hostile_strings".to_string(), tally.get("cases_with_hostile_strings"), 1000),
        ("cases_with_demands".to_string(), tally.get("cases_with_demands"), 500),
        ("cases_without_demands".to_string(), tally.get("cases_without_demands"), 500),
        ("repeated_renderings_compared".to_string(), tally.get("repeated_renderings_compared"), 2000),
        ("cases_without_any_epb_use".to_string(), tally.get("cases_without_any_epb_use"), 50),
    ];
    if ctx.cli_debug.is_some() {
        quotas.push(("cli_output_sets_checked".to_string(), tally.get("cli_output_sets_checked"), 30));
        quotas.push(("cli_runs_over_existing_longer_output_files".to_string(), tally.get("cli_runs_over_existing_longer_output_files"), 10));
        quotas.push(("hourly_year_through_the_program".to_string(), tally.get("hourly_year_through_the_program"), 1));
    }
    Report {
        tally,
        rule: "results of generated buildings with hostile comment and metadata strings (<, >, &, quotes, backslashes, ]]>, entity look-alikes, non-ASCII, tabs), demands present or absent, negative and large (up to 1e12) values: the plain report is parsed with its line grammar and every number compared with the result at its printed precision, tables checked for keys and sorted order; the XML is checked by a well-formedness parser (every 50th also by python expat), its numbers, element counts, values, comments and metadata compared with the result; the JSON (compact and pretty) is parsed and read back into an EnergyPerformance compared field by field; two more evaluations in fresh threads must render the same; every ~60th case goes through the real binary with --json --xml --txt; non-trivial = hostile strings present or at least three carriers; distinct = distinct (components text, factors, k_exp, area, mode); second session: half of the program runs find their output paths holding a longer earlier document, one hourly year per run goes through the program (documents of several MiB), user factor files carry hostile comments and metadata, several biomass DHW systems without declared output are planted (error text must not vary between runs)".into(),
        assumptions: vec![
            "control characters other than tab are outside the property's string classes".into(),
            "escape_xml maps a backslash to &apos; (odd, well-formed): texts are compared modulo that mapping".into(),
            "two evaluations may differ in the last printed digit of a building total (hash-ordered f32 accumulation): reports compared with 0.011 absolute slack per number, structure and order exactly".into(),
        ],
        quotas,
    }
}

pub fn replay(ctx: &Ctx, _monitor: &str, w: &Value) -> Option<Report> {
    let case: Case = serde_json::from_value(w["case"].clone()).ok()?;
    let mut t = Tally::default();
    check_case(ctx, &case, 0, ctx.cli_debug.is_some(), &mut t);
    Some(Report { tally: t, rule: "replay".into(), assumptions: vec![], quotas: vec![] })
}
