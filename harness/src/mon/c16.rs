//! C16 — no input makes the library panic or the program crash or hang.

use crate::case::{gen_user_file, FacOpts, LOCS};
use crate::cli;
use crate::corrupt;
use crate::gen::{self, GenOpts, Tri};
use crate::rng::Rng;
use crate::safe;
use crate::tally::Tally;
use crate::{run_sharded, Ctx, Report};
use cteepbd::{cte, AsCtePlain, AsCteXml, Components, Factors, UserWF};
use serde_json::{json, Value};
use std::cell::Cell;
use std::panic::{catch_unwind, AssertUnwindSafe};
use std::path::Path;

const PROP: &str = "C16";

pub const HOSTILE_K: [f32; 10] = [0.0, 1.0, 0.5, -1.0, 2.0, f32::NAN, f32::INFINITY, f32::NEG_INFINITY, 1e-30, -0.0];
pub const HOSTILE_AREA: [f32; 12] = [1.0, 100.0, 0.0, -1.0, 1e-3, 1.1e-3, 1e-4, f32::NAN, f32::INFINITY, 1e30, f32::MIN_POSITIVE, -0.0];

/// One in-process execution of the whole pipeline on arbitrary texts; returns (stage reached, panic message)
pub fn pipeline(ctext: &str, ftext: Option<&str>, loc: &str, k: f32, area: f32, lm: bool, stage: &Cell<&'static str>) -> Result<&'static str, String> {
    let res = catch_unwind(AssertUnwindSafe(|| -> &'static str {
        stage.set("parse_components");
        let c = match ctext.parse::<Components>() {
            Ok(c) => c,
            Err(_) => return "components_rejected",
        };
        stage.set("metadata_accessors");
        {
            use cteepbd::types::MetaVec;
            for m in &c.meta {
                let _ = c.get_meta_f32(&m.key);
                let _ = c.get_meta_rennren(&m.key);
                let _ = c.has_meta_value(&m.key, "x");
                let _ = m.value.parse::<cteepbd::types::RenNrenCo2>();
            }
        }
        stage.set("normalize_again");
        let _ = c.clone().normalize();
        stage.set("display_components");
        let shown = c.to_string();
        stage.set("reparse_displayed_components");
        let _ = shown.parse::<Components>();
        stage.set("factors");
        let f: Factors = match ftext {
            Some(ft) => {
                stage.set("parse_factors");
                let _ = ft.parse::<Factors>();
                stage.set("wfactors_from_str");
                match cte::wfactors_from_str(ft, UserWF { red1: None, red2: None }, cte::CTE_USERWF) {
                    Ok(f) => f,
                    Err(_) => return "factors_rejected",
                }
            }
            None => match cte::wfactors_from_loc(loc, &cte::CTE_LOCWF_RITE2014, UserWF { red1: None, red2: None }, cte::CTE_USERWF) {
                Ok(f) => f,
                Err(_) => return "factors_rejected",
            },
        };
        stage.set("display_factors");
        let _ = f.to_string();
        stage.set("to_nearby");
        let _ = f.to_nearby(&cteepbd::types::Carrier::NRBY);
        stage.set("strip");
        let fs = f.clone().strip(&c);
        stage.set("energy_performance");
        let ep = match cteepbd::energy_performance(&c, &fs, k, area, lm) {
            Ok(e) => e,
            Err(_) => {
                stage.set("energy_performance_full_factors");
                let _ = cteepbd::energy_performance(&c, &f, k, area, lm);
                return "evaluation_rejected";
            }
        };
        stage.set("dhw_indicator");
        let ep = cte::incorpora_demanda_renovable_acs_nrb(ep);
        stage.set("to_plain");
        let _ = ep.to_plain();
        stage.set("to_xml");
        let _ = ep.to_xml();
        stage.set("to_json");
        let js = serde_json::to_string(&ep);
        stage.set("from_json");
        if let Ok(js) = js {
            let _ = serde_json::from_str::<cteepbd::types::EnergyPerformance>(&js);
        }
        "evaluated"
    }));
    res.map_err(|e| safe::panic_msg(&e))
}

struct Corpus {
    comps: Vec<String>,
    facs: Vec<String>,
}

fn gen_texts(r: &mut Rng, corpus: &Corpus) -> (String, Option<String>, &'static str) {
    // components text
    let mut o = GenOpts::default();
    o.aux = Tri::Maybe;
    o.aux_hostile = true;
    o.hostile_comments = r.chance(1, 3);
    o.meta = r.chance(1, 2);
    o.el_cogen_input = true;
    let base = if !corpus.comps.is_empty() && r.chance(1, 3) {
        r.pick(&corpus.comps).clone()
    } else {
        let mut spec = gen::building(r, &o);
        if r.chance(1, 30) {
            gen::without_epb_use(&mut spec, r);
        }
        spec.to_text()
    };
    let (ctext, kind) = match r.below(20) {
        0..=1 => (base, "valid"),
        2 => (corrupt::soup(r), "soup"),
        3 => (String::new(), "empty"),
        _ => (corrupt::mutate(r, &base), "mutated"),
    };
    // factors: location, valid user file or corrupted user file
    let ftext = match r.below(6) {
        0 => {
            let base = if !corpus.facs.is_empty() && r.chance(1, 2) { r.pick(&corpus.facs).clone() } else { gen_user_file(r, &FacOpts { zeros: true, ..Default::default() }) };
            Some(if r.chance(1, 2) { corrupt::mutate(r, &base) } else { base })
        }
        1 => Some(gen_user_file(r, &FacOpts { all_carriers: false, zeros: true, ..Default::default() })),
        2 if r.chance(1, 4) => Some(corrupt::soup(r)),
        _ => None,
    };
    (ctext, ftext, kind)
}

/// the (ren, nren, co2) triple parser on its own (metadata values and option values go through it)
fn triple_case(r: &mut Rng, t: &mut Tally) {
    let txt = corrupt::triple_soup(r);
    t.evaluations += 1;
    match catch_unwind(AssertUnwindSafe(|| txt.parse::<cteepbd::types::RenNrenCo2>().is_ok())) {
        Ok(ok) => t.count(if ok { "triple_parser.accepted" } else { "triple_parser.rejected" }),
        Err(e) => t.violation("C16.library_panics.parse_rennrenco2", format!("RenNrenCo2::from_str panicked on {:?}: {}", txt, safe::panic_msg(&e)), || json!({"kind": "triple", "text": txt})),
    }
}

fn in_process_case(r: &mut Rng, corpus: &Corpus, t: &mut Tally) {
    if r.chance(1, 20) {
        triple_case(r, t);
        return;
    }
    let (ctext, ftext, kind) = gen_texts(r, corpus);
    // hostile numeric options in one third of the cases, so that most inputs also reach the balance
    let k = if r.chance(1, 3) { *r.pick(&HOSTILE_K) } else { *r.pick(&[0.0f32, 1.0, 0.5]) };
    let area = if r.chance(1, 3) { *r.pick(&HOSTILE_AREA) } else { *r.pick(&[1.0f32, 100.0, 37.5]) };
    let lm = r.chance(1, 2);
    let loc = *r.pick(&LOCS);
    let stage = Cell::new("start");
    t.evaluations += 1;
    t.count(&format!("input.{kind}"));
    match pipeline(&ctext, ftext.as_deref(), loc, k, area, lm, &stage) {
        Ok(outcome) => {
            t.count(&format!("outcome.{outcome}"));
            if outcome != "components_rejected" && kind == "mutated" {
                t.count("mutated_inputs_accepted_by_the_parser");
            }
            if outcome == "evaluated" && kind == "mutated" {
                t.count("mutated_inputs_reaching_evaluation");
            }
            if kind == "mutated" {
                t.count("mutated_inputs");
            }
            if outcome == "evaluated" || kind != "valid" {
                t.nontrivial(crate::spec::fnv(format!("{ctext}|{:?}|{k}|{area}", ftext).as_bytes()));
            }
            t.sample(|| json!({"components": ctext, "factors": ftext, "k_exp": format!("{k}"), "area": format!("{area}"), "outcome": outcome}));
        }
        Err(msg) => {
            let st = stage.get();
            t.count(&format!("panic_at.{st}"));
            t.violation(
                &format!("C16.library_panics.{st}"),
                format!("the library panicked in stage `{st}`: {msg}"),
                || json!({"kind": "in_process", "components_text": ctext, "factors_text": ftext, "loc": loc, "k_exp": format!("{k}"), "area": format!("{area}"), "load_matching": lm}),
            );
        }
    }
}

/// command line of one process-level case; `{C}` `{F}` `{D}` are replaced by scratch paths
fn gen_argv(r: &mut Rng, has_f: bool) -> Vec<String> {
    let mut a: Vec<String> = vec![];
    let s = |x: &str| x.to_string();
    match r.below(12) {
        0 => return vec![], // nothing at all: clap rejects
        1 => return vec![s(*r.pick(&["-L", "--licencia", "--version", "--help", "-h", "-V"]))],
        2 => return vec![s("-c"), s("{D}/no_such_file.csv"), s("-l"), s("PENINSULA")],
        3 => return vec![s("-c"), s("{C}"), s(*r.pick(&["--bogus", "-x", "-l", "-k"]))],
        _ => {}
    }
    a.push(s("-c"));
    a.push(s("{C}"));
    match r.below(5) {
        0 if has_f => {
            a.push(s("-f"));
            a.push(s("{F}"));
        }
        1 => {} // factors only from metadata (or exit 64)
        2 => {
            a.push(s("-f"));
            a.push(s("{D}/missing_factors.csv"));
        }
        _ => {
            a.push(s("-l"));
            a.push(s(*r.pick(&["PENINSULA", "CANARIAS", "BALEARES", "CEUTAMELILLA", "MARTE", ""])));
        }
    }
    if r.chance(1, 2) {
        a.push(s(*r.pick(&["-k", "--kexp"])));
        a.push(s(*r.pick(&["0", "1", "0.5", "1.0", "2", "-1", "x", "", "1e-1", "NaN", "inf", "0,5", " 0.3", "1e400"])));
    }
    if r.chance(1, 2) {
        a.push(s(*r.pick(&["-a", "--arearef"])));
        a.push(s(*r.pick(&["10", "1", "0", "-5", "abc", "1e9", "0.001", "0.0011", "NaN", "inf", "", "1e-400", "200.5"])));
    }
    if r.chance(1, 4) && !a.contains(&s("-f")) {
        a.push(s(*r.pick(&["--red1", "--red2"])));
        for _ in 0..3 {
            a.push(s(*r.pick(&["1", "0", "0.5", "x", "-1", "1e39", "NaN"])));
        }
    }
    if r.chance(1, 3) {
        a.push(s("--load_matching"));
    }
    if r.chance(1, 4) {
        a.push(s("-F"));
    }
    for _ in 0..r.below(3) {
        a.push(s("-v"));
    }
    for (opt, name) in [("--json", "o.json"), ("--xml", "o.xml"), ("--txt", "o.txt"), ("--oc", "oc.csv"), ("--of", "of.csv")] {
        if r.chance(1, 4) {
            a.push(s(opt));
            a.push(match r.below(11) {
                // an output path that is the components file itself, or shared by several outputs
                9 => s("{C}"),
                10 => s("{D}/shared.out"),
                0 => s("{D}/no_such_dir/out"),
                1 => s("{D}"),
                2 => s("/proc/version"),
                // opens, but every write fails (ENOSPC): the write-error path
                3 => s("/dev/full"),
                _ => format!("{{D}}/{name}"),
            });
        }
    }
    a
}

#[derive(Default)]
struct ProcOutcome {
    bad: Option<(String, String)>,
    label: String,
}

fn classify(res: &cli::RunResult) -> ProcOutcome {
    let mut o = ProcOutcome::default();
    if let Some(e) = &res.spawn_error {
        o.label = format!("spawn_error:{e}");
        return o;
    }
    let panicked = res.stderr.contains("panicked at");
    if res.timed_out {
        o.label = "timeout".into();
        if panicked {
            o.bad = Some(("C16.program_panics_and_hangs".into(), format!("cteepbd panicked and then did not terminate: {}", res.stderr.lines().find(|l| l.contains("panicked at")).unwrap_or(""))));
        }
        return o;
    }
    if let Some(sig) = res.signal {
        o.label = format!("signal_{sig}");
        o.bad = Some(("C16.program_killed_by_signal".into(), format!("cteepbd ended by signal {sig}: {}", res.stderr.lines().next().unwrap_or(""))));
        return o;
    }
    let code = res.code.unwrap_or(-1);
    o.label = format!("exit_{code}");
    if panicked {
        o.bad = Some(("C16.program_panics".into(), format!("cteepbd panicked (exit {code}): {}", res.stderr.lines().find(|l| l.contains("panicked at")).unwrap_or(""))));
    } else if ![0, 1, 64, 65, 73, 74].contains(&code) {
        o.bad = Some(("C16.undocumented_exit_code".into(), format!("cteepbd ended with exit code {code}: {}", res.stderr.lines().next().unwrap_or(""))));
    } else if code == 1 && !(res.stderr.contains("USAGE") || res.stderr.contains("error:")) {
        o.bad = Some(("C16.exit_1_not_from_option_parser".into(), format!("exit code 1 without the option parser's message: {}", res.stderr.lines().next().unwrap_or(""))));
    } else if code == 0 && res.stderr.lines().any(|l| l.starts_with("ERROR")) {
        o.bad = Some(("C16.error_reported_but_exit_code_0".into(), format!("an error is reported on stderr but the program ends with exit code 0: {}", res.stderr.lines().find(|l| l.starts_with("ERROR")).unwrap_or(""))));
    } else if code != 0 && res.stderr.trim().is_empty() {
        o.bad = Some(("C16.error_not_reported_on_stderr".into(), format!("exit code {code} with empty stderr")));
    }
    o
}

pub fn run_process_case(bin: &Path, build: &str, ctext: &[u8], ftext: Option<&[u8]>, argv_t: &[String], wrapper: Option<&[String]>, t: &mut Tally) {
    let dir = cli::scratch_dir("c16");
    let cpath = dir.join("c.csv");
    let fpath = dir.join("f.csv");
    let _ = std::fs::write(&cpath, ctext);
    if let Some(f) = ftext {
        let _ = std::fs::write(&fpath, f);
    }
    let sub = |x: &String| x.replace("{C}", &cpath.display().to_string()).replace("{F}", &fpath.display().to_string()).replace("{D}", &dir.display().to_string());
    let argv: Vec<String> = argv_t.iter().map(sub).collect();
    let timeout = if wrapper.is_some() { 120_000 } else { 20_000 };
    let mut res = cli::run_with(bin, &argv, timeout, wrapper);
    t.evaluations += 1;
    let mut o = classify(&res);
    if res.timed_out && o.bad.is_none() {
        // a loaded machine is not a hang: one solitary re-run with a generous deadline decides
        res = cli::run_with(bin, &argv, 60_000 + timeout, wrapper);
        o = classify(&res);
        if res.timed_out && o.bad.is_none() {
            o.bad = Some(("C16.program_hangs".into(), "cteepbd does not terminate by itself (killed after 60 s; normal run time is milliseconds)".into()));
        } else {
            t.count(&format!("{build}.timeout_resolved_by_rerun"));
        }
    }
    if let Some(w) = wrapper {
        if w.iter().any(|x| x.contains("valgrind")) && res.code == Some(99) {
            o.bad = Some(("C16.memcheck_error".into(), format!("valgrind memcheck reports an error: {}", res.stderr.lines().filter(|l| l.contains("==")).take(6).collect::<Vec<_>>().join(" | "))));
        }
    }
    t.count(&format!("{build}.{}", o.label));
    if let Some((mon, detail)) = o.bad {
        t.violation(&format!("{mon}.{build}"), detail, || {
            json!({"kind": "process", "build": build, "components_bytes": ctext, "factors_bytes": ftext, "argv": argv_t, "stderr": res.stderr.chars().take(2000).collect::<String>()})
        });
    }
    let _ = std::fs::remove_dir_all(&dir);
}

/// a very large but valid file (8760 steps, dozens of lines, several MB): bounded progress on big inputs
fn huge_text(r: &mut Rng) -> String {
    let mut o = GenOpts::default();
    o.steps = Some(8760);
    o.aux = Tri::Always;
    o.aux_multi = true;
    o.cogen = Tri::Always;
    o.pv = Tri::Always;
    let mut spec = gen::building(r, &o);
    // repeat the lines a few times (same tags: they add up)
    let extra: Vec<crate::spec::Line> = spec.lines.iter().filter(|l| !matches!(l, crate::spec::Line::Aux { .. } | crate::spec::Line::Out { .. })).cloned().collect();
    for _ in 0..r.usize(3) {
        spec.lines.extend(extra.clone());
    }
    spec.to_text()
}

fn process_case(ctx: &Ctx, r: &mut Rng, corpus: &Corpus, t: &mut Tally) {
    let (mut ctext, ftext, mut kind) = gen_texts(r, corpus);
    if ctx.thorough() && r.chance(1, 400) {
        ctext = huge_text(r);
        kind = "huge_valid";
        t.add("huge_input_bytes", ctext.len() as u64);
    }
    if r.chance(1, 25) {
        // one enormous malformed line full of non-ASCII text (a line that ends up quoted in an error message)
        let mut filler = String::new();
        for _ in 0..(300 + r.usize(900)) {
            filler.push_str(*r.pick(&["ñ", "é", "€", "日", "a", " ", "ü", "x", "ó"]));
        }
        let bad = format!("{}, CONSUMO, CAL, ELECTRICIDAD, {}, 10 # {}\n", r.below(9), r.pick(&["x", "1,,2", "--", "1e", "ñ"]), filler);
        let at = ctext.lines().count().min(r.usize(8));
        let mut ls: Vec<&str> = ctext.lines().collect();
        let badl = bad.trim_end().to_string();
        ls.insert(at, &badl);
        ctext = ls.join("\n") + "\n";
        t.count("input.very_long_malformed_non_ascii_line");
    }
    let mut cbytes = ctext.into_bytes();
    if r.chance(1, 25) {
        // cut anywhere, also in the middle of a multi-byte character (a transfer that broke off)
        let non_ascii: Vec<usize> = cbytes.iter().enumerate().filter(|(_, b)| **b >= 0xC0).map(|(i, _)| i).collect();
        let cut = if !non_ascii.is_empty() && r.chance(2, 3) { *r.pick(&non_ascii) + 1 } else { r.usize(cbytes.len() + 1) };
        cbytes.truncate(cut);
        if non_ascii.is_empty() && r.chance(1, 2) {
            // nothing non-ASCII to cut through: end the file with the first byte of a two-byte character
            cbytes.extend_from_slice(b" # caf\xC3");
        }
        t.count("input.truncated_at_a_byte");
    }
    if r.chance(1, 40) {
        // not UTF-8 at all: must end with the documented I/O error code
        let i = r.usize(cbytes.len() + 1);
        cbytes.insert(i, 0xff);
        cbytes.insert(i, 0xfe);
        t.count("input.invalid_utf8");
    }
    let argv = gen_argv(r, ftext.is_some());
    t.count(&format!("process_input.{kind}"));
    let fbytes = ftext.as_ref().map(|s| s.as_bytes().to_vec());
    if let Some(bin) = &ctx.cli_debug {
        run_process_case(bin, "debug", &cbytes, fbytes.as_deref(), &argv, None, t);
    }
    if let Some(bin) = &ctx.cli_release {
        if ctx.thorough() || r.chance(1, 3) {
            run_process_case(bin, "release", &cbytes, fbytes.as_deref(), &argv, None, t);
        }
    }
    t.nontrivial(crate::spec::fnv(&cbytes) ^ crate::spec::fnv(format!("{:?}", argv).as_bytes()));
}

pub fn run(ctx: &Ctx) -> Report {
    let (comps, facs) = corrupt::seed_files(Path::new(&std::env::var("VERIF_REPO").unwrap_or_else(|_| "/repo".into())));
    let corpus = Corpus { comps, facs };
    let n_in = ctx.cases(60_000, 3_000_000);
    let n_proc = if ctx.cli_debug.is_some() { ctx.cases(2_500, 60_000) } else { 0 };
    let mut tally = run_sharded(ctx, n_in, |_idx, r, t| in_process_case(r, &corpus, t));
    tally.add("seed_files.components", corpus.comps.len() as u64);
    tally.add("seed_files.factors", corpus.facs.len() as u64);
    if n_proc > 0 {
        let mut c2 = ctx.clone();
        c2.seed = ctx.seed ^ 0xC16;
        let t2 = run_sharded(&c2, n_proc, |_idx, r, t| process_case(ctx, r, &corpus, t));
        tally.merge(t2);
    }
    let mutated = tally.get("mutated_inputs");
    let reached = tally.get("mutated_inputs_accepted_by_the_parser");
    let mut quotas = vec![
        // the corpus must not be so destructive that nothing reaches the balance
        ("mutated_inputs_accepted_by_the_parser_percent".to_string(), if mutated > 0 { reached * 100 / mutated } else { 0 }, 25),
        ("mutated_inputs_reaching_evaluation".to_string(), tally.get("mutated_inputs_reaching_evaluation"), 2000),
        ("outcome.components_rejected".to_string(), tally.get("outcome.components_rejected"), 1000),
        ("outcome.evaluated".to_string(), tally.get("outcome.evaluated"), 5000),
        ("seed_files.components".to_string(), tally.get("seed_files.components"), 5),
    ];
    if ctx.cli_debug.is_some() {
        for c in [0, 1, 64, 65, 73, 74] {
            quotas.push((format!("debug.exit_{c}"), tally.get(&format!("debug.exit_{c}")), 5));
        }
    }
    Report {
        tally,
        rule: "corruption engine (drop / duplicate / truncate / swap / replace fields and lines, wrong lengths, NaN / inf / 1e39 / -0, empty fields, unknown tags, non-ASCII, stray # and metadata forms, ids out of range, all lines of a kind removed, CRLF, token soups, empty files, invalid UTF-8) applied to every file under /repo/test_data and to generated buildings and factor files, plus unmutated valid files; in-process: parse, normalize, Display + re-parse, factor parsing / preparation / to_nearby / strip, energy_performance with hostile k_exp and area (NaN, inf, negative, boundary), DHW indicator, plain / XML / JSON rendering and JSON read-back, each under catch_unwind with the stage recorded; out-of-process: the same corpus through the real debug (and release) binary with generated command lines (valid and invalid option values, missing files, unwritable outputs) under a 20 s watchdog; non-trivial = corrupted input, or valid input that evaluates; distinct = distinct (texts, options)".into(),
        assumptions: vec![
            "bounded progress: a run that outlives 20 s is re-run alone with 80 s; only a second timeout counts as a hang (normal run time ~2 ms)".into(),
            "stdout and stderr are always drained; a closed pipe is a fault outside the quantifier".into(),
            "harness built with overflow checks and debug assertions, so arithmetic overflow would be reported as a panic too".into(),
        ],
        quotas,
    }
}

pub fn replay(ctx: &Ctx, _monitor: &str, w: &Value) -> Option<Report> {
    let mut t = Tally::default();
    if w["kind"] == "triple" {
        let txt = w["text"].as_str()?.to_string();
        if let Err(e) = catch_unwind(AssertUnwindSafe(|| txt.parse::<cteepbd::types::RenNrenCo2>().is_ok())) {
            t.violation("C16.library_panics.parse_rennrenco2", format!("RenNrenCo2::from_str panicked on {:?}: {}", txt, safe::panic_msg(&e)), || w.clone());
        }
    } else if w["kind"] == "in_process" {
        let ctext = w["components_text"].as_str()?.to_string();
        let ftext = w["factors_text"].as_str().map(|s| s.to_string());
        let pf = |s: &str| -> f32 { s.parse().unwrap_or(f32::NAN) };
        let k = pf(w["k_exp"].as_str().unwrap_or("0"));
        let area = pf(w["area"].as_str().unwrap_or("1"));
        let stage = Cell::new("start");
        t.evaluations += 1;
        if let Err(msg) = pipeline(&ctext, ftext.as_deref(), w["loc"].as_str().unwrap_or("PENINSULA"), k, area, w["load_matching"].as_bool().unwrap_or(false), &stage) {
            t.violation(&format!("C16.library_panics.{}", stage.get()), format!("the library panicked in stage `{}`: {msg}", stage.get()), || w.clone());
        }
    } else {
        let bytes = |v: &Value| -> Option<Vec<u8>> { v.as_array().map(|a| a.iter().filter_map(|x| x.as_u64().map(|b| b as u8)).collect()) };
        let c = bytes(&w["components_bytes"])?;
        let f = bytes(&w["factors_bytes"]);
        let argv: Vec<String> = serde_json::from_value(w["argv"].clone()).ok()?;
        let build = w["build"].as_str().unwrap_or("debug");
        let bin = if build == "release" { ctx.cli_release.clone() } else { ctx.cli_debug.clone() }?;
        run_process_case(&bin, build, &c, f.as_deref(), &argv, None, &mut t);
    }
    Some(Report { tally: t, rule: "replay".into(), assumptions: vec![], quotas: vec![] })
}

/// `vmon C16-valgrind`: a small shard of the process corpus under valgrind memcheck (thorough tier)
pub fn run_valgrind(ctx: &Ctx) -> Report {
    let (comps, facs) = corrupt::seed_files(Path::new(&std::env::var("VERIF_REPO").unwrap_or_else(|_| "/repo".into())));
    let corpus = Corpus { comps, facs };
    let wrapper: Vec<String> = vec!["valgrind".into(), "--quiet".into(), "--error-exitcode=99".into(), "--leak-check=no".into()];
    let n = ctx.cases(64, 300);
    let bin = ctx.cli_release.clone().or(ctx.cli_debug.clone());
    let tally = run_sharded(ctx, n, |_idx, r, t| {
        let Some(bin) = &bin else { return };
        let (ctext, ftext, _) = gen_texts(r, &corpus);
        let argv = gen_argv(r, ftext.is_some());
        run_process_case(bin, "memcheck", ctext.as_bytes(), ftext.as_ref().map(|s| s.as_bytes()), &argv, Some(&wrapper), t);
        t.nontrivial(crate::spec::fnv(ctext.as_bytes()));
        t.sample(|| json!({"components": ctext, "argv": argv}));
    });
    let _ = PROP;
    Report { tally, rule: "a shard of the C16 process corpus run under valgrind memcheck (--error-exitcode=99) on the release binary".into(), assumptions: vec![], quotas: vec![] }
}
