//! C18 — components and factors survive being written out and read back.

use super::common::*;
use crate::case::{gen_case, Case, FacChoice};
use crate::cli;
use crate::gen::{Class, GenOpts, Tri};
use crate::refmodel::Tol;
use crate::safe::{self, Out};
use crate::tally::Tally;
use crate::{run_sharded, Ctx, Report};
use cteepbd::types::{Energy, HasValues};
use cteepbd::{Components, Factors};
use serde_json::{json, Value};
use std::collections::BTreeMap;

const PROP: &str = "C18";

type Key = (String, i32);

fn key(e: &Energy) -> Key {
    match e {
        Energy::Used(u) => (format!("CONSUMO, {}, {}", u.service, u.carrier), u.id),
        Energy::Prod(p) => (format!("PRODUCCION, {}", p.source), p.id),
        Energy::Aux(a) => (format!("AUX, {}", a.service), a.id),
        Energy::Out(o) => (format!("SALIDA, {}", o.service), o.id),
    }
}

/// aggregated values, number of lines and sorted comments per (tags, id)
fn canon(c: &Components) -> BTreeMap<Key, (Vec<f64>, usize, Vec<String>)> {
    let mut m: BTreeMap<Key, (Vec<f64>, usize, Vec<String>)> = BTreeMap::new();
    for e in &c.data {
        let v = e.values();
        let ent = m.entry(key(e)).or_insert_with(|| (vec![0.0; v.len()], 0, vec![]));
        for (i, x) in v.iter().enumerate() {
            if i < ent.0.len() {
                ent.0[i] += *x as f64;
            }
        }
        ent.1 += 1;
        if !e.comment().is_empty() {
            ent.2.push(e.comment().to_string());
        }
    }
    for v in m.values_mut() {
        v.2.sort();
    }
    m
}

/// number of per-step values the 2-decimal text form cannot represent exactly (they carry up to 0.005 kWh of rounding)
fn off_grid_lines(c: &Components) -> usize {
    c.data.iter().filter(|e| e.values().iter().any(|x| ((*x as f64 * 100.0).round() / 100.0 - *x as f64).abs() > 1e-6 * x.abs().max(1.0) as f64)).count()
}

pub fn check_components(text: &str, t: &mut Tally, wit: &dyn Fn(Value) -> Value) -> Option<(Components, Components, usize, bool)> {
    let c1 = match safe::parse_components(text) {
        Out::Ok(c) => c,
        Out::Err(..) => {
            t.count("input.rejected");
            return None;
        }
        Out::Panic(m) => {
            t.violation("evaluation_panicked.parse", format!("parsing panicked: {m}"), || wit(json!({})));
            return None;
        }
    };
    let written = match safe::guard_plain(|| c1.to_string()) {
        Out::Ok(s) => s,
        Out::Panic(m) => {
            t.violation("C18.write_panicked", format!("Display for Components panicked: {m}"), || wit(json!({})));
            return None;
        }
        _ => return None,
    };
    t.evaluations += 1;
    let c2 = match safe::parse_components(&written) {
        Out::Ok(c) => c,
        Out::Err(v, m) => {
            t.violation("C18.written_components_not_readable", format!("the written components file is rejected when read back: {v}: {m}"), || wit(json!({"written": written})));
            return None;
        }
        Out::Panic(m) => {
            t.violation("C18.written_components_not_readable", format!("reading the written components file panicked: {m}"), || wit(json!({"written": written})));
            return None;
        }
    };
    let m1: Vec<(String, String)> = c1.meta.iter().map(|m| (m.key.clone(), m.value.clone())).collect();
    let m2: Vec<(String, String)> = c2.meta.iter().map(|m| (m.key.clone(), m.value.clone())).collect();
    if m1 != m2 {
        t.violation("C18.metadata_changes", format!("metadata {:?} read back as {:?}", m1, m2), || wit(json!({"written": written})));
    }
    let (a, b) = (canon(&c1), canon(&c2));
    let on_grid = |x: f32| ((x as f64 * 100.0).round() / 100.0 - x as f64).abs() <= 1e-6 * (x.abs() as f64).max(1.0);
    // auxiliaries are re-assigned when the written file is read: a share moves by the rounding of all the
    // shares of its system, and by more when the outputs that drive the split are themselves rounded
    let aux_lines_of = |id: i32| c1.data.iter().filter(|e| e.is_aux() && e.id() == id).count();
    // at steps without output the auxiliaries are split by annual shares, which are f32 sums over all the steps: the
    // shares add up to 1 only within the accumulation error of n terms (same n-aware tolerance as C06)
    let n_steps = c1.data.iter().map(|e| e.values().len()).max().unwrap_or(1) as f64;
    let rel_aux = 4e-6 + 1.5e-7 * n_steps;
    let out_rounded = |id: i32| c1.data.iter().any(|e| e.is_out() && e.id() == id && e.values().iter().any(|x| !on_grid(*x)));
    // per-system totals of the auxiliaries are always conserved within the rounding of their lines
    {
        let tot = |c: &Components| -> BTreeMap<i32, Vec<f64>> {
            let mut m: BTreeMap<i32, Vec<f64>> = BTreeMap::new();
            for e in c.data.iter().filter(|e| e.is_aux()) {
                let v = e.values();
                let a = m.entry(e.id()).or_insert_with(|| vec![0.0; v.len()]);
                for (i, x) in v.iter().enumerate() {
                    if i < a.len() {
                        a[i] += *x as f64;
                    }
                }
            }
            m
        };
        let (t1, t2) = (tot(&c1), tot(&c2));
        for (id, v) in &t1 {
            let slack = 0.00501 * aux_lines_of(*id) as f64;
            let ok = t2.get(id).map(|w| v.len() == w.len() && v.iter().zip(w.iter()).all(|(x, y)| (x - y).abs() <= slack + rel_aux * x.abs())).unwrap_or(v.iter().all(|x| x.abs() <= slack));
            if !ok {
                t.violation("C18.component_values_change", format!("auxiliary energy of system {id}: {:?} read back as {:?}", v, t2.get(id)), || wit(json!({"written": written})));
            }
        }
    }
    for (k, (v, nl, comments)) in &a {
        let is_aux = k.0.starts_with("AUX");
        if is_aux && out_rounded(k.1) {
            continue; // only the per-system total (above) is pinned when the outputs are rounded
        }
        match b.get(k) {
            Some((w, _, comments2)) => {
                // completed ambient / solar production is recomputed from the rounded uses of its system
                let completed = k.0 == "PRODUCCION, EAMBIENTE" || k.0 == "PRODUCCION, TERMOSOLAR";
                let use_lines = if completed {
                    let cr = k.0.trim_start_matches("PRODUCCION, ");
                    c1.data.iter().filter(|e| e.is_used() && e.id() == k.1 && e.carrier().to_string() == cr).count()
                } else {
                    0
                };
                let slack = 0.00501 * if is_aux { aux_lines_of(k.1) as f64 } else { (*nl + use_lines) as f64 };
                let rel = if is_aux { rel_aux } else { 1e-6 };
                if v.len() != w.len() || v.iter().zip(w.iter()).any(|(x, y)| (x - y).abs() > slack + rel * x.abs()) {
                    t.violation("C18.component_values_change", format!("component {:?}: {:?} read back as {:?}", k, v, w), || wit(json!({"written": written})));
                }
                // comments of the lines (generated completions may merge or vanish; declared ones stay)
                let declared: Vec<&String> = comments.iter().filter(|c| !c.starts_with("Equilibrado de consumo") && !c.starts_with("Reasignación automática")).collect();
                if declared.iter().any(|c| !comments2.contains(c)) {
                    t.violation("C18.comment_changes", format!("component {:?}: comments {:?} read back as {:?}", k, comments, comments2), || wit(json!({"written": written})));
                }
            }
            None => {
                let slack = 0.00501 * if is_aux { aux_lines_of(k.1) as f64 } else { 1.0 };
                if v.iter().any(|x| x.abs() > slack) {
                    t.violation("C18.component_lost", format!("component {:?} = {:?} is missing after the round trip", k, v), || wit(json!({"written": written})));
                }
            }
        }
        t.count("component_groups_compared");
    }
    for (k, (w, _, _)) in &b {
        let slack = if k.0.starts_with("AUX") { 0.00501 * aux_lines_of(k.1).max(1) as f64 } else { 0.0051 };
        if !a.contains_key(k) && w.iter().any(|x| x.abs() > slack) {
            t.violation("C18.component_invented", format!("component {:?} = {:?} appears after the round trip", k, w), || wit(json!({"written": written})));
        }
    }
    for (srv, n1, n2) in [("ACS", &c1.needs.ACS, &c2.needs.ACS), ("CAL", &c1.needs.CAL, &c2.needs.CAL), ("REF", &c1.needs.REF, &c2.needs.REF)] {
        let ok = match (n1, n2) {
            (None, None) => true,
            (Some(x), Some(y)) => x.len() == y.len() && x.iter().zip(y.iter()).all(|(p, q)| (p - q).abs() as f64 <= 0.00501 + 1e-6 * p.abs() as f64),
            _ => false,
        };
        if !ok {
            t.violation("C18.demand_changes", format!("building demand {srv}: {:?} read back as {:?}", n1, n2), || wit(json!({"written": written})));
        }
        if n1.is_some() {
            t.count("demands_compared");
        }
    }
    let off = off_grid_lines(&c1) + [&c1.needs.ACS, &c1.needs.CAL, &c1.needs.REF].iter().filter(|n| n.as_ref().map(|v| v.iter().any(|x| !on_grid(*x))).unwrap_or(false)).count();
    let aux_outputs_rounded = c1.data.iter().filter(|e| e.is_aux()).any(|e| out_rounded(e.id()));
    Some((c1, c2, off, aux_outputs_rounded))
}

pub fn check_factors(f1: &Factors, t: &mut Tally, wit: &dyn Fn(Value) -> Value) -> Option<Factors> {
    let written = f1.to_string();
    let f2 = match safe::parse_factors(&written) {
        Out::Ok(f) => f,
        other => {
            t.violation("C18.written_factors_not_readable", format!("the written factors file cannot be read back: {}", other.describe()), || wit(json!({"written": written})));
            return None;
        }
    };
    let m1: Vec<(String, String)> = f1.wmeta.iter().map(|m| (m.key.clone(), m.value.clone())).collect();
    let m2: Vec<(String, String)> = f2.wmeta.iter().map(|m| (m.key.clone(), m.value.clone())).collect();
    if m1 != m2 {
        t.violation("C18.metadata_changes", format!("factor metadata {:?} read back as {:?}", m1, m2), || wit(json!({"written": written})));
    }
    if f1.wdata.len() != f2.wdata.len() {
        t.violation("C18.factor_lost", format!("{} factors written, {} read back", f1.wdata.len(), f2.wdata.len()), || wit(json!({"written": written})));
        return Some(f2);
    }
    for (a, b) in f1.wdata.iter().zip(f2.wdata.iter()) {
        let same_tags = a.carrier == b.carrier && a.source == b.source && a.dest == b.dest && a.step == b.step;
        let close = |x: f32, y: f32| (x - y).abs() as f64 <= 0.000501 + 1e-6 * x.abs() as f64;
        if !same_tags || !close(a.ren, b.ren) || !close(a.nren, b.nren) || !close(a.co2, b.co2) || a.comment != b.comment {
            t.violation("C18.factor_changes", format!("factor `{}` read back as `{}`", a, b), || wit(json!({"written": written})));
        }
        t.count("factors_compared");
    }
    Some(f2)
}

pub fn check_case(ctx: &Ctx, case: &Case, with_cli: bool, t: &mut Tally) {
    let text = case.spec.to_text();
    let wit = |extra: Value| {
        let mut w = case.witness();
        w["observed"] = extra;
        w
    };
    let Some((c1, c2, off, aux_outputs_rounded)) = check_components(&text, t, &wit) else { return };
    let fac = match safe::guard(|| case.fac.build()) {
        Out::Ok(f) => f,
        _ => return,
    };
    let Some(f2) = check_factors(&fac, t, &wit) else { return };
    // evaluation on both sides
    let (Some(e1), Some(e2)) = (eval(PROP, case, &c1, &fac, case.k, case.area, case.lm, t), eval(PROP, case, &c2, &f2, case.k, case.area, case.lm, t)) else {
        let r1 = safe::eval(&c1, &fac, case.k, case.area, case.lm).class();
        let r2 = safe::eval(&c2, &f2, case.k, case.area, case.lm).class();
        if r1 != r2 {
            t.violation("C18.evaluation_outcome_changes", format!("original evaluates as {r1}, the written-and-read-back data as {r2}"), || wit(json!({})));
        }
        return;
    };
    let Ok(rf) = ref_eval_parsed(&c1, &fac, case.k, case.area, case.lm) else { return };
    // what the rounding of the text form does to each result according to the equations themselves:
    // the reference evaluation of the read-back data minus the reference evaluation of the original data
    let Ok(rf2) = ref_eval_parsed(&c2, &f2, case.k, case.area, case.lm) else { return };
    let (fl1, fl2) = (flat(&e1), flat(&e2));
    let tol = Tol::for_steps(case.spec.n);
    let mut bad = 0;
    for (p, v) in &fl1 {
        if aux_outputs_rounded && p.contains("by_srv") {
            // the split of the auxiliaries is recomputed from rounded outputs: per-service figures may shift,
            // the per-carrier and building figures may not
            continue;
        }
        let Some(v2) = value_or_zero(&fl2, p) else {
            if *v != 0.0 {
                t.violation("C18.result_changes", format!("{p} is missing when evaluating the written-and-read-back data"), || wit(json!({"path": p})));
            }
            continue;
        };
        let s = scale_of(p, &rf, *v);
        let propagated = match (rf.get(p), rf2.get(p)) {
            (Some(a), Some(b)) => {
                if a.s.is_finite() && b.s.is_finite() {
                    (a.v - b.v).abs() + tol.rtol * b.s
                } else {
                    f64::INFINITY
                }
            }
            _ => 0.0,
        };
        let band = tol.atol + tol.rtol * s + 1.02 * propagated;
        if !((v - v2).abs() <= band) && !(v.is_nan() && v2.is_nan()) {
            bad += 1;
            if bad <= 2 {
                t.violation("C18.result_changes", format!("{p}: {v} from the original data, {v2} from the written-and-read-back data (admissible difference {band:.3e}, of which {propagated:.3e} is the rounding of the text form propagated by the equations)"), || wit(json!({"path": p, "lines_off_the_2_decimal_grid": off})));
            }
        }
        t.max("largest_propagated_rounding_effect_relative_to_scale", if s > 0.0 && propagated.is_finite() { propagated / s } else { 0.0 });
        t.count("result_fields_compared");
    }
    if off == 0 {
        t.count("cases_with_lossless_text_form");
    } else {
        t.count("cases_with_rounded_lines");
    }
    if with_cli {
        if let Some(bin) = &ctx.cli_debug {
            cli_roundtrip(bin, case, &text, &c1, &c2, &fac, t);
        }
    }
    let kinds = ["CONSUMO", "PRODUCCION", "AUX", "SALIDA", "DEMANDA"].iter().filter(|k| text.contains(*k)).count();
    if kinds >= 4 {
        t.nontrivial(case.hash());
        t.sample(|| {
            let mut s = short_case(case);
            s["written_components"] = json!(c1.to_string());
            s
        });
    }
}

/// evaluate, save with --oc / --of, evaluate the saved files: same report
fn cli_roundtrip(bin: &std::path::Path, case: &Case, text: &str, c1: &Components, c2: &Components, fac: &Factors, t: &mut Tally) {
    let dir = cli::scratch_dir("c18");
    let cpath = dir.join("c.csv");
    let _ = std::fs::write(&cpath, text);
    // the options are recorded in the saved metadata with 2 (area) and 1 (k_exp) decimals
    let area = ((case.area as f64 * 100.0).round() / 100.0).max(0.01);
    let k = (case.k as f64 * 10.0).round() / 10.0;
    let mut args: Vec<String> = vec!["-c".into(), cpath.display().to_string(), "-a".into(), format!("{area}"), "-k".into(), format!("{k}")];
    match &case.fac {
        FacChoice::Loc { loc, .. } => {
            args.push("-l".into());
            args.push(loc.clone());
        }
        FacChoice::User { text, .. } => {
            let fpath = dir.join("f.csv");
            let _ = std::fs::write(&fpath, text);
            args.push("-f".into());
            args.push(fpath.display().to_string());
        }
    }
    if case.lm {
        args.push("--load_matching".into());
    }
    let h = crate::spec::fnv(text.as_bytes());
    // saving in place: --oc names the components file that was read (same spelling, or through `./`)
    let in_place = h % 5 == 1;
    let oc = if !in_place {
        dir.join("oc.csv")
    } else if h % 2 == 0 {
        cpath.clone()
    } else {
        dir.join(".").join("c.csv")
    };
    let of = dir.join("of.csv");
    if in_place {
        t.count("cli_saves_components_in_place");
    }
    // the files may exist already with longer content (names reused between runs): saving replaces them
    if h % 2 == 0 && !in_place {
        let filler = "9, CONSUMO, CAL, GASNATURAL, 1.00, 2.00 # resto de un archivo anterior\n".repeat((text.len() * 4 + (1 << 18)) / 64);
        let _ = std::fs::write(&oc, &filler);
        let _ = std::fs::write(&of, "GASNATURAL, RED, SUMINISTRO, A, 9.000, 9.000, 9.000 # resto de un archivo anterior\n".repeat(4000));
        t.count("cli_saves_over_existing_longer_files");
    }
    let mut a1 = args.clone();
    a1.extend(["--oc".to_string(), oc.display().to_string(), "--of".to_string(), of.display().to_string()]);
    let r1 = cli::run(bin, &a1, 20_000);
    t.evaluations += 1;
    let wit = |extra: Value| {
        let mut w = case.witness();
        w["argv"] = json!(a1);
        w["observed"] = extra;
        w
    };
    if r1.timed_out {
        t.count("cli_timeouts_inconclusive");
    } else if r1.code == Some(0) {
        let mut a2: Vec<String> = vec!["-c".into(), oc.display().to_string(), "-f".into(), of.display().to_string()];
        if case.lm {
            a2.push("--load_matching".into());
        }
        let r2 = cli::run(bin, &a2, 20_000);
        t.evaluations += 1;
        let rep = |s: &str| -> String { s.split("** Eficiencia energética").nth(1).unwrap_or("").to_string() };
        if rep(&r1.stdout).is_empty() {
            // nothing to compute (a file with needs / delivered energy only): there is no report to compare; the saved
            // file must still be readable and carry the declared needs
            let saved = std::fs::read_to_string(&oc).unwrap_or_default();
            let needs_in = text.lines().filter(|l| l.trim_start().starts_with("DEMANDA")).count();
            let needs_out = saved.lines().filter(|l| l.trim_start().starts_with("DEMANDA")).count();
            let services = |s: &str| -> std::collections::BTreeSet<String> { s.lines().filter(|l| l.trim_start().starts_with("DEMANDA")).filter_map(|l| l.split(',').nth(1).map(|x| x.trim().to_string())).collect() };
            if r2.code != Some(0) || (needs_in > 0 && services(text) != services(&saved)) {
                t.violation("C18.demand_changes", format!("file without energy components: {needs_in} DEMANDA line(s) for {:?} declared, the file saved with --oc has {needs_out} for {:?} (re-run exit {:?})", services(text), services(&saved), r2.code), || wit(json!({"saved_components": saved})));
            }
            t.count("cli_round_trips_without_components");
        } else if r2.code != Some(0) {
            t.violation("C18.saved_files_not_evaluable", format!("the files saved with --oc / --of are rejected (exit {:?}): {}", r2.code, r2.stderr.lines().next().unwrap_or("")), || wit(json!({"saved_components": std::fs::read_to_string(&oc).unwrap_or_default(), "saved_factors": std::fs::read_to_string(&of).unwrap_or_default()})));
        } else {
            // effect of the text rounding on the per-m2 figures, as propagated by the equations (reference
            // evaluations of the original and of the read-back data *with the options of these runs*), plus the
            // rounding of hash-ordered accumulation; printed totals add up to three such fields
            // the command lines above do not pass user RED1 / RED2: the factor set of these runs has none
            let fac_cli = {
                let mut fc = case.fac.clone();
                match &mut fc {
                    FacChoice::Loc { red1, red2, .. } | FacChoice::User { red1, red2, .. } => {
                        *red1 = None;
                        *red2 = None;
                    }
                }
                safe::guard(|| fc.build()).ok()
            };
            let fac_owned = fac_cli.unwrap_or_else(|| fac.clone());
            let fac = &fac_owned;
            let rfa = ref_eval_parsed(c1, fac, k as f32, area as f32, case.lm).unwrap_or_default();
            // the saved factor file keeps three decimals: the second run works with the rounded factors
            let fac_read_back = match safe::parse_factors(&fac.to_string()) {
                Out::Ok(f) => f,
                _ => fac.clone(),
            };
            let rfb = ref_eval_parsed(c2, &fac_read_back, k as f32, area as f32, case.lm).unwrap_or_default();
            let rf = &rfa;
            let mut slack = report_slack(rf);
            for (p, a) in rfa.iter().filter(|(p, _)| p.starts_with("balance_m2.")) {
                if let Some(b) = rfb.get(p) {
                    if a.s.is_finite() && b.s.is_finite() {
                        slack = slack.max(3.2 * (a.v - b.v).abs() + 3e-6 * a.s);
                    }
                }
            }
            // the DHW percentage is a ratio of rounded sums: each run must state what the library computes for
            // its own data (original / read back); how far the two are apart is not bounded here
            let pct_line = |s: &str| -> Option<f64> { s.lines().find(|l| l.starts_with("Porcentaje renovable de la demanda de ACS")).and_then(|l| cli::numbers(l.split(':').nth(1).unwrap_or("")).first().copied()) };
            let without_pct = |s: &str| -> String { s.lines().filter(|l| !l.starts_with("Porcentaje renovable de la demanda de ACS")).collect::<Vec<_>>().join("\n") };
            let (_, noise) = dhw_noise_band(&case.spec);
            let lib_pct = |c: &Components, fac: &Factors| -> Option<f64> {
                let stripped = fac.clone().strip(c);
                let ep = safe::eval(c, &stripped, k as f32, area as f32, case.lm).ok()?;
                safe::guard(|| cteepbd::cte::fraccion_renovable_acs_nrb(&ep)).ok().map(|x| 100.0 * x as f64)
            };
            for (which, out, comps, fc) in [("original", &r1.stdout, c1, fac), ("saved", &r2.stdout, c2, &fac_read_back)] {
                if let (Some(p), Some(l)) = (pct_line(&rep(out)), lib_pct(comps, fc)) {
                    if l.is_finite() && !((p - l).abs() <= 0.1502 + 100.0 * noise + 1e-4 * l.abs()) {
                        t.violation("C18.saved_files_give_other_results", format!("run on the {which} files prints a renewable DHW percentage of {p}, the library computes {l} for that data"), || wit(json!({"first": rep(&r1.stdout), "second": rep(&r2.stdout)})));
                    }
                }
            }
            let (r1out, r2out) = (without_pct(&rep(&r1.stdout)), without_pct(&rep(&r2.stdout)));
            if rep(&r1.stdout).is_empty() || !cli::reports_equal(&comparable_report(r1out.trim(), rf), &comparable_report(r2out.trim(), rf), slack) {
                t.violation("C18.saved_files_give_other_results", "evaluating the files saved with --oc / --of gives another report than the original evaluation".into(), || {
                    wit(json!({"first": rep(&r1.stdout), "second": rep(&r2.stdout), "saved_components": std::fs::read_to_string(&oc).unwrap_or_default(), "slack": slack}))
                });
            }
            t.count("cli_round_trips_compared");
        }
    } else {
        // the library evaluates this building with these options: a program that refuses to evaluate and save it
        // (usage error, refusal, crash) cannot round-trip it
        t.violation(
            "C18.cli_cannot_save",
            format!("the library evaluates the building but `cteepbd ... --oc --of` exits with {:?} (signal {:?}): {}", r1.code, r1.signal, r1.stderr.lines().next().unwrap_or("")),
            || wit(json!({})),
        );
    }
    let _ = std::fs::remove_dir_all(&dir);
}

pub fn run(ctx: &Ctx) -> Report {
    let total = ctx.cases(10_000, 400_000);
    let cli_every = if ctx.thorough() { 100 } else { 50 };
    let tally = run_sharded(ctx, total, |idx, r, t| {
        let mut o = GenOpts::default();
        o.hostile_comments = r.chance(1, 2);
        o.meta = true;
        o.demands = if r.chance(1, 2) { Tri::Always } else { Tri::Maybe };
        o.aux = if r.chance(1, 2) { Tri::Always } else { Tri::Maybe };
        o.class = Some(if r.chance(3, 4) { Class::Decimal } else { Class::Dyadic });
        o.long_steps = ctx.thorough();
        let mut case = gen_case(r, &o, 35);
        if r.chance(1, 4) {
            case.area = 100.0;
            case.k = 0.5;
        }
        if r.chance(1, 40) {
            // a file that declares building needs (and metadata) only, or needs and delivered energy only
            use crate::spec::Line;
            let keep_out = r.chance(1, 2);
            case.spec.lines.retain(|l| matches!(l, Line::Need { .. }) || (keep_out && matches!(l, Line::Out { .. })));
            if !case.spec.lines.iter().any(|l| matches!(l, Line::Need { .. })) {
                case.spec.lines.push(Line::Need { srv: "ACS".into(), v: vec![12.5; case.spec.n] });
                case.spec.lines.push(Line::Need { srv: "REF".into(), v: vec![-3.25; case.spec.n] });
            }
            t.count("files_with_needs_only");
        }
        check_case(ctx, &case, idx % cli_every == 0, t);
    });
    let mut quotas = vec![
        ("component_groups_compared".to_string(), tally.get("component_groups_compared"), 20_000),
        ("factors_compared".to_string(), tally.get("factors_compared"), 20_000),
        ("demands_compared".to_string(), tally.get("demands_compared"), 1000),
        ("cases_with_lossless_text_form".to_string(), tally.get("cases_with_lossless_text_form"), 1000),
        ("cases_with_rounded_lines".to_string(), tally.get("cases_with_rounded_lines"), 1000),
    ];
    if ctx.cli_debug.is_some() {
        quotas.push(("cli_round_trips_compared".to_string(), tally.get("cli_round_trips_compared"), 50));
    }
    Report {
        tally,
        rule: "generated component files (all five line kinds, metadata, hostile comments, auxiliaries on several systems, completed ambient / solar production; values on the 0.01 grid so that the text form is lossless, and dyadic values that are not) and prepared factor sets (regulatory and user files): Display -> FromStr must keep metadata, tags, ids, comments, demands and values within half a unit of the printed precision per line; both sides are evaluated and every result field compared within the propagated rounding; every ~50th case runs the real binary with --oc / --of and again on the saved files; non-trivial = at least four of the five line kinds present; distinct = distinct (components text, factors, k_exp, area, mode); second session: the program also saves over existing longer files and, in one run out of five, in place (--oc names the -c file, also through ./); factor files carry hostile comments and metadata".into(),
        assumptions: vec![
            "k_exp and area are recorded in the saved metadata with 1 and 2 decimals: the process-level round trip uses values with that precision".into(),
            "comments of automatically generated lines (completions, reassigned auxiliaries) may merge on re-reading; declared comments must stay".into(),
        ],
        quotas,
    }
}

pub fn replay(ctx: &Ctx, _monitor: &str, w: &Value) -> Option<Report> {
    let case: Case = serde_json::from_value(w["case"].clone()).ok()?;
    let mut t = Tally::default();
    check_case(ctx, &case, ctx.cli_debug.is_some(), &mut t);
    Some(Report { tally: t, rule: "replay".into(), assumptions: vec![], quotas: vec![] })
}
