//! C09 — annual results do not depend on how time is laid out (permutation / subdivision of steps).

use super::common::*;
use crate::case::{gen_case, Case};
use crate::flat::{step_index, Flat};
use crate::gen::{GenOpts, Tri};
use crate::refmodel::{RefOut, Tol};
use crate::rng::Rng;
use crate::tally::Tally;
use crate::{run_sharded, Ctx, Report};
use serde_json::{json, Value};

const PROP: &str = "C09";

fn compare_layout(name: &str, base: &Flat, other: &Flat, rf: &RefOut, tol: &Tol, map_step: &dyn Fn(usize) -> (usize, f64), t: &mut Tally, wit: &dyn Fn(Value) -> Value) {
    // `map_step(j)` gives, for step j of the transformed building, the base step it comes from and the
    // factor its energy carries (1 for a permutation, 1/m for a subdivision)
    let mut bad = 0;
    for (p, v2) in other {
        let (want, scale, is_ratio): (f64, f64, bool) = match step_index(p) {
            None => match value_or_zero(base, p) {
                Some(v) => (v, scale_of(p, rf, v), false),
                None => {
                    if *v2 != 0.0 {
                        t.violation(&format!("C09.{name}.field_appears"), format!("{p} = {v2} only exists in the transformed building"), || wit(json!({"path": p})));
                    }
                    continue;
                }
            },
            Some((vecname, j)) => {
                let (i, f) = map_step(j);
                let bp = format!("{vecname}[{i}]");
                let ratio = vecname.ends_with("f_match");
                match base.get(&bp) {
                    Some(v) => (if ratio { *v } else { *v * f }, rf.get(&bp).map(|x| x.s).unwrap_or(v.abs()) * if ratio { 1.0 } else { f }, ratio),
                    None => {
                        t.violation(&format!("C09.{name}.step_vector_shape"), format!("{p} has no counterpart {bp} in the original building"), || wit(json!({"path": p})));
                        continue;
                    }
                }
            }
        };
        let _ = is_ratio;
        let band = tol.atol + tol.rtol * scale;
        if !((v2 - want).abs() <= band) && !(v2.is_nan() && want.is_nan()) {
            bad += 1;
            if bad <= 2 {
                let kind = if p.ends_with(']') { "per-step value" } else { "annual result" };
                t.violation(
                    &format!("C09.{name}.{}", if p.ends_with(']') { "step_values_do_not_follow" } else { "annual_result_changes" }),
                    format!("{kind} {p}: {v2} after the transformation, expected {want} (scale {scale:.4e})"),
                    || wit(json!({"path": p, "transformed": v2, "expected": want})),
                );
            }
        } else {
            t.max("largest_normalised_difference", (v2 - want).abs() / band);
        }
        t.count("fields_compared");
    }
    for (p, v) in base {
        if step_index(p).is_none() && !other.contains_key(p) {
            let band = tol.atol + tol.rtol * scale_of(p, rf, *v);
            if !(lenient_missing(p) && v.abs() <= band) && *v != 0.0 {
                t.violation(&format!("C09.{name}.field_disappears"), format!("{p} = {v} is missing after the transformation"), || wit(json!({"path": p})));
            }
        }
    }
}

pub fn check_case(_ctx: &Ctx, case: &Case, m: usize, t: &mut Tally) {
    let Some((comps, fac)) = prepare(PROP, case, t) else { return };
    let Some(ep) = eval(PROP, case, &comps, &fac, case.k, case.area, case.lm, t) else { return };
    let base = flat(&ep);
    let Ok(rf) = ref_eval_parsed(&comps, &fac, case.k, case.area, case.lm) else {
        t.count("reference_error");
        return;
    };
    let n = case.spec.n;
    let mut r = Rng::new(case.sub_seed);
    // ---- permutation of the steps
    if n > 1 {
        let perm = r.perm(n);
        let s2 = case.spec.permuted(&perm);
        let mut c2 = case.clone();
        c2.spec = s2;
        let wit = |extra: Value| {
            let mut w = case.witness();
            w["permutation"] = json!(perm);
            w["transformed_components"] = json!(c2.spec.to_text());
            w["observed"] = extra;
            w
        };
        match prepare(PROP, &c2, t).and_then(|(cc, ff)| eval(PROP, &c2, &cc, &ff, case.k, case.area, case.lm, t)) {
            Some(ep2) => {
                let tol = Tol::for_steps(n);
                compare_layout("permutation", &base, &flat(&ep2), &rf, &tol, &|j| (perm[j], 1.0), t, &wit);
                t.count("permutations_checked");
            }
            None => t.violation("C09.permutation.outcome_changes", "the building evaluates, its step-permuted version does not".into(), || wit(json!({}))),
        }
    }
    // ---- subdivision of every step into m sub-steps
    if case.spec.min_nonzero() / m as f32 >= 0.0024 && n * m <= 9000 {
        let s2 = case.spec.subdivided(m);
        let mut c2 = case.clone();
        c2.spec = s2;
        let wit = |extra: Value| {
            let mut w = case.witness();
            w["subdivision"] = json!(m);
            w["observed"] = extra;
            w
        };
        match prepare(PROP, &c2, t).and_then(|(cc, ff)| eval(PROP, &c2, &cc, &ff, case.k, case.area, case.lm, t)) {
            Some(ep2) => {
                let tol = Tol::for_steps(n * m);
                compare_layout("subdivision", &base, &flat(&ep2), &rf, &tol, &|j| (j / m, 1.0 / m as f64), t, &wit);
                t.count("subdivisions_checked");
                t.count(&format!("subdivision.m={m}"));
            }
            None => t.violation("C09.subdivision.outcome_changes", format!("the building evaluates, its {m}-fold subdivided version does not"), || wit(json!({}))),
        }
    } else {
        t.count("subdivision_skipped_values_would_leave_domain");
    }
    // ---- deep subdivision (m = 256) of short series: m has no upper bound in the statement. The sub-steps fall below the
    // 1e-3 kWh the library's *per-source* split needs, so only what does not go through that split is pinned: the
    // per-carrier final-energy totals (use, production, produced-and-used, exported, delivered by the grid) and the
    // matching factor of every sub-step.
    if n <= 4 && r.chance(1, 3) {
        const M: usize = 256;
        let mut c2 = case.clone();
        c2.spec = case.spec.subdivided(M);
        let wit = |extra: Value| {
            let mut w = case.witness();
            w["subdivision"] = json!(M);
            w["observed"] = extra;
            w
        };
        if let Some(ep2) = prepare(PROP, &c2, t).and_then(|(cc, ff)| eval(PROP, &c2, &cc, &ff, case.k, case.area, case.lm, t)) {
            let other = flat(&ep2);
            let tol = Tol::for_steps(n * M);
            let mut bad = 0;
            for (p, v) in &base {
                let carrier_total = p.starts_with("balance_cr.") && [".used.epus_an", ".used.nepus_an", ".used.cgnus_an", ".prod.an", ".prod.epus_an", ".exp.an", ".exp.grid_an", ".exp.nepus_an", ".del.grid_an"].iter().any(|s| p.ends_with(s));
                if carrier_total {
                    let v2 = other.get(p).copied().unwrap_or(0.0);
                    let band = tol.atol + tol.rtol * scale_of(p, &rf, *v);
                    if !((v2 - v).abs() <= band) {
                        bad += 1;
                        if bad <= 2 {
                            t.violation("C09.deep_subdivision.annual_result_changes", format!("annual result {p}: {v2} after splitting every step into {M} sub-steps, expected {v}"), || wit(json!({"path": p})));
                        }
                    }
                    t.count("deep_subdivision_fields_compared");
                }
            }
            // matching factor of sub-step j = matching factor of step j / M
            for (p, v2) in &other {
                if let Some((vecname, j)) = step_index(p) {
                    if vecname.ends_with("f_match") {
                        if let Some(v) = base.get(&format!("{vecname}[{}]", j / M)) {
                            if (v2 - v).abs() > 1e-4 {
                                bad += 1;
                                if bad <= 2 {
                                    t.violation("C09.deep_subdivision.step_values_do_not_follow", format!("{p} = {v2}, the matching factor of the step it is part of is {v}"), || wit(json!({"path": p})));
                                }
                            }
                        }
                    }
                }
            }
            t.count("deep_subdivisions_checked");
        }
    }
    if case.spec.has_cogen() {
        t.count("cases_with_cogeneration");
    }
    if n > 1024 {
        t.count("cases_longer_than_1024_steps");
    }
    if case.spec.min_nonzero() / (m as f32) < 0.0099 {
        t.count("cases_with_sub_steps_below_0.01_kWh");
    }
    if case.lm {
        t.count("cases_with_load_matching");
    }
    // non-trivial: several steps with different values and an uneven profile
    let uneven = case.spec.lines.iter().any(|l| l.values().windows(2).any(|w| w[0] != w[1]));
    if n > 1 && uneven {
        t.nontrivial(case.hash());
        t.sample(|| {
            let mut s = short_case(case);
            s["subdivision_m"] = json!(m);
            s
        });
    }
}

pub fn run(ctx: &Ctx) -> Report {
    let total = ctx.cases(10_000, 400_000);
    let thorough = ctx.thorough();
    let tally = run_sharded(ctx, total, |_idx, r, t| {
        let m = if thorough { *r.pick(&[2usize, 2, 3, 3, 4, 5, 6, 7, 8, 12]) } else { *r.pick(&[2usize, 2, 3, 4]) };
        let mut o = GenOpts::default();
        o.vmul = m as i64;
        o.long_steps = thorough;
        if r.chance(1, 2) {
            o.cogen = Tri::Always;
        }
        let mut m = m;
        match r.below(60) {
            0 => {
                // series longer than any block size a summation shortcut might use, with cogeneration
                // (a leap year of hourly values has 8784 steps; half of it splits into 8784 sub-steps)
                o.steps = Some(*r.pick(&[1100usize, 1500, 2049, 1100, 1500, 2049, 4392, 8784]));
                o.cogen = Tri::Always;
                m = 2;
            }
            1..=8 => {
                // very small amounts (0.01 .. 0.06 kWh): sub-steps down to 0.0025 kWh, still above the library's
                // 1e-3 kWh production guard
                o.class = Some(crate::gen::Class::Decimal);
                o.vmul = 1;
                o.max = 0.06;
            }
            _ => {}
        }
        let mut case = gen_case(r, &o, 30);
        if r.chance(1, 2) {
            case.lm = true;
        }
        check_case(ctx, &case, m, t);
    });
    let quotas = vec![
        ("permutations_checked".to_string(), tally.get("permutations_checked"), 1000),
        ("subdivisions_checked".to_string(), tally.get("subdivisions_checked"), 1000),
        ("cases_with_cogeneration".to_string(), tally.get("cases_with_cogeneration"), 500),
        ("cases_with_load_matching".to_string(), tally.get("cases_with_load_matching"), 500),
        ("cases_longer_than_1024_steps".to_string(), tally.get("cases_longer_than_1024_steps"), 50),
        ("deep_subdivisions_checked".to_string(), tally.get("deep_subdivisions_checked"), 200),
        ("cases_with_sub_steps_below_0.01_kWh".to_string(), tally.get("cases_with_sub_steps_below_0.01_kWh"), 300),
    ];
    Report {
        tally,
        rule: "generated buildings (cogeneration with uneven fuel / electricity profiles, load matching, exports) are evaluated as declared, with their steps reordered by a random permutation, and with every step split into m equal sub-steps (m in 2..4, thorough up to 12; values generated as multiples of m grid units so that value / m stays >= 0.01 kWh, except a regime of very small amounts whose sub-steps go down to 0.0025 kWh - above the library's 1e-3 kWh guards -, and a regime of 1100..2049-step series, and of 4392 / 8784-step series, with cogeneration); every annual field must agree and every per-step vector must follow the permutation / subdivision; non-trivial = more than one step and a profile that is not flat; distinct = distinct (components text, factors, k_exp, area, mode)".into(),
        assumptions: vec!["summation order changes with the layout: comparison within atol 1e-4 + rtol * cancellation scale (scales from the f64 reference model)".into()],
        quotas,
    }
}

pub fn replay(ctx: &Ctx, _monitor: &str, w: &Value) -> Option<Report> {
    let case: Case = serde_json::from_value(w["case"].clone()).ok()?;
    let m = w["subdivision"].as_u64().unwrap_or(2) as usize;
    let mut t = Tally::default();
    check_case(ctx, &case, m, &mut t);
    Some(Report { tally: t, rule: "replay".into(), assumptions: vec![], quotas: vec![] })
}
