//! C14 — more on-site renewable electricity never makes the building look worse (relational monitor).

use super::common::*;
use crate::case::{gen_case, gen_loc, Case};
use crate::gen::{GenOpts, Tri};
use crate::rng::Rng;
use crate::spec::Line;
use crate::tally::Tally;
use crate::{run_sharded, Ctx, Report};
use cteepbd::types::{Carrier, ProdSource};
use serde_json::{json, Value};

const PROP: &str = "C14";

/// grid increment per step: zero at some steps, small, or large enough to cross the use
fn increment(r: &mut Rng, case: &Case) -> Vec<f32> {
    let dy = case.spec.lines.iter().all(|l| l.values().iter().all(|x| (*x * 8.0).fract() == 0.0));
    let top = case.spec.max_abs().max(1.0) as f64;
    (0..case.spec.n)
        .map(|_| {
            let x = match r.below(5) {
                0 => 0.0,
                1 => r.range_f(0.01, 1.0),
                2 => r.range_f(0.0, top * 0.2),
                3 => r.range_f(0.0, top),
                _ => r.range_f(0.0, top * 4.0),
            };
            if dy {
                ((x * 8.0).round() / 8.0) as f32
            } else {
                ((x * 100.0).round() / 100.0) as f32
            }
        })
        .collect()
}

pub fn check_case(ctx: &Ctx, case: &Case, inc_override: Option<Vec<f32>>, t: &mut Tally) {
    let Some((comps, fac)) = prepare(PROP, case, t) else { return };
    let Some(e1) = eval(PROP, case, &comps, &fac, case.k, case.area, case.lm, t) else { return };
    let mut r = Rng::new(case.sub_seed);
    let inc = match inc_override {
        Some(v) if v.len() == case.spec.n => v,
        _ => increment(&mut r, case),
    };
    if inc.iter().all(|x| *x == 0.0) {
        t.count("zero_increment_skipped");
        return;
    }
    let mut c2 = case.clone();
    c2.spec.lines.push(Line::Prod { id: *r.pick(&[0, 1, 99]), src: "EL_INSITU".into(), v: inc.clone(), comment: "incremento".into() });
    let Some((comps2, _)) = prepare(PROP, &c2, t) else { return };
    let Some(e2) = eval(PROP, &c2, &comps2, &fac, case.k, case.area, case.lm, t) else {
        t.violation("C14.outcome_changes", "the building evaluates, the building with additional on-site electricity does not".into(), || case.witness());
        return;
    };
    let Ok(rf) = ref_eval_parsed(&comps2, &fac, case.k, case.area, case.lm) else { return };
    let sc = |p: &str| rf.get(p).map(|v| v.s).unwrap_or(0.0);
    let wit = |extra: Value| {
        let mut w = case.witness();
        w["increment"] = json!(inc);
        w["observed"] = extra;
        w
    };
    let rtol = 2e-5 * (1.0 + case.spec.n as f64 / 500.0);
    let checks: [(&str, f64, f64, &str); 5] = [
        ("non-renewable primary energy, step A", e1.balance.we.a.nren as f64, e2.balance.we.a.nren as f64, "balance.we.a.nren"),
        ("non-renewable primary energy, step B", e1.balance.we.b.nren as f64, e2.balance.we.b.nren as f64, "balance.we.b.nren"),
        ("CO2 emissions, step A", e1.balance.we.a.co2 as f64, e2.balance.we.a.co2 as f64, "balance.we.a.co2"),
        ("CO2 emissions, step B", e1.balance.we.b.co2 as f64, e2.balance.we.b.co2 as f64, "balance.we.b.co2"),
        ("grid-delivered energy", e1.balance.del.grid as f64, e2.balance.del.grid as f64, "balance.del.grid"),
    ];
    for (name, v1, v2, path) in checks {
        let band = 1e-4 + rtol * sc(path);
        if v2 > v1 + band {
            t.violation(
                &format!("C14.increases.{}", path.replace("balance.", "")),
                format!("{name} increases from {v1} to {v2} when on-site electricity production is added (k_exp {}, load matching {})", case.k, case.lm),
                || wit(json!({"path": path, "before": v1, "after": v2})),
            );
        }
        t.count("monotonicity_checks");
        if v2 < v1 - band {
            t.count(&format!("strict_decrease.{}", path.replace("balance.", "")));
        }
    }
    // per step grid delivery of electricity
    if let (Some(b1), Some(b2)) = (e1.balance_cr.get(&Carrier::ELECTRICIDAD), e2.balance_cr.get(&Carrier::ELECTRICIDAD)) {
        for i in 0..case.spec.n.min(b1.del.grid_t.len()).min(b2.del.grid_t.len()) {
            let (g1, g2) = (b1.del.grid_t[i] as f64, b2.del.grid_t[i] as f64);
            if g2 > g1 + 3e-6 * (b1.used.epus_t[i] as f64) + 1e-9 {
                t.violation("C14.increases.grid_delivery_at_step", format!("step {i}: electricity delivered by the grid rises from {g1} to {g2} with {} kWh more on-site production", inc[i]), || wit(json!({"step": i})));
                break;
            }
        }
    }
    // RER at k_exp = 0 never decreases
    if case.k == 0.0 {
        let tot1 = e1.balance.we.b.tot() as f64;
        let tot2 = e2.balance.we.b.tot() as f64;
        let s = sc("balance.we.b.ren") + sc("balance.we.b.nren");
        if tot1 > 1e-3 * s && tot2 > 1e-3 * s && tot1 > 1e-3 && tot2 > 1e-3 {
            let (r1, r2) = (e1.rer as f64, e2.rer as f64);
            let slack = 2e-6 + 3e-5 * s / tot1.min(tot2);
            t.count("rer_pairs_checked");
            if r2 < r1 - slack {
                // mechanism predicate of known finding K1: the added production displaces cogenerated electricity,
                // more of it is exported, its (renewable-rich) step A resources are subtracted. Hold those at the
                // base level and the inequality must be restored.
                let has_cgn = case.spec.has_cogen();
                let (el1, el2) = (&e1.balance_cr[&Carrier::ELECTRICIDAD], &e2.balance_cr[&Carrier::ELECTRICIDAD]);
                let g = |m: &std::collections::HashMap<ProdSource, f32>, s: ProdSource| m.get(&s).copied().unwrap_or(0.0) as f64;
                let (pv1, pv2) = (g(&el1.exp.by_src_an, ProdSource::EL_INSITU), g(&el2.exp.by_src_an, ProdSource::EL_INSITU));
                let (cg1, cg2) = (g(&el1.exp.by_src_an, ProdSource::EL_COGEN), g(&el2.exp.by_src_an, ProdSource::EL_COGEN));
                // step A resources of the exported cogenerated electricity (on-site electricity is (1, 0, 0))
                let d_ren = (el2.we.exp_a.ren as f64 - pv2) - (el1.we.exp_a.ren as f64 - pv1);
                let d_nren = el2.we.exp_a.nren as f64 - el1.we.exp_a.nren as f64;
                let ren_c = e2.balance.we.b.ren as f64 + d_ren;
                let nren_c = e2.balance.we.b.nren as f64 + d_nren;
                let rer_c = ren_c / (ren_c + nren_c);
                let explained = has_cgn && cg2 > cg1 && rer_c >= r1 - slack;
                let detail = format!("RER at k_exp = 0 falls from {r1} to {r2} when on-site production is added (exported cogeneration {cg1} -> {cg2}; with its step A resources held at the base level RER would be {rer_c})");
                match (explained, ctx.findings.get(PROP, "K1")) {
                    (true, Some(f)) => {
                        t.known_finding("K1", f.what.clone());
                        t.count("rer_drops_matching_K1_predicate");
                    }
                    _ => t.violation(if has_cgn { "C14.rer_decreases.with_cogeneration" } else { "C14.rer_decreases" }, detail, || wit(json!({"rer_before": r1, "rer_after": r2, "rer_corrected": rer_c, "exported_cogeneration": [cg1, cg2]}))),
                }
            } else if r2 > r1 + slack {
                t.count("strict_increase.rer");
            }
        } else {
            t.count("rer_degenerate_total_skipped");
        }
    }
    // crossing: production below use before, above after, at some step
    let crosses = match (e1.balance_cr.get(&Carrier::ELECTRICIDAD), e2.balance_cr.get(&Carrier::ELECTRICIDAD)) {
        (Some(b1), Some(b2)) => (0..case.spec.n.min(b1.prod.t.len()).min(b2.prod.t.len())).any(|i| b1.prod.t[i] < b1.used.epus_t[i] && b2.prod.t[i] > b2.used.epus_t[i]),
        _ => false,
    };
    if crosses {
        t.count("cases_where_production_crosses_use");
    }
    if case.spec.has_cogen() {
        t.count("cases_with_cogeneration");
    }
    if e1.balance_cr.contains_key(&Carrier::ELECTRICIDAD) && (crosses || e2.balance.del.grid < e1.balance.del.grid) {
        t.nontrivial(case.hash() ^ case.sub_seed);
        t.sample(|| {
            let mut s = short_case(case);
            s["increment"] = json!(inc);
            s["we_b_nren_before_after"] = json!([e1.balance.we.b.nren, e2.balance.we.b.nren]);
            s["rer_before_after"] = json!([e1.rer, e2.rer]);
            s
        });
    }
}

pub fn run(ctx: &Ctx) -> Report {
    let total = ctx.cases(15_000, 600_000);
    let mut o = GenOpts::default();
    o.long_steps = ctx.thorough();
    let tally = run_sharded(ctx, total, |_idx, r, t| {
        let mut o = o.clone();
        if r.chance(1, 3) {
            o.cogen = Tri::Always;
        }
        let mut case = gen_case(r, &o, 0);
        case.fac = gen_loc(r);
        if r.chance(1, 2) {
            case.k = 0.0;
        }
        check_case(ctx, &case, None, t);
    });
    let quotas = vec![
        ("monotonicity_checks".to_string(), tally.get("monotonicity_checks"), 20_000),
        ("rer_pairs_checked".to_string(), tally.get("rer_pairs_checked"), 2000),
        ("cases_where_production_crosses_use".to_string(), tally.get("cases_where_production_crosses_use"), 500),
        ("cases_with_cogeneration".to_string(), tally.get("cases_with_cogeneration"), 1000),
        ("strict_decrease.we.b.nren".to_string(), tally.get("strict_decrease.we.b.nren"), 1000),
    ];
    Report {
        tally,
        rule: "pairs (generated building, same building plus one EL_INSITU line with random non-negative increments at random steps, incl. increments that make production cross the use) under the four regulatory factor sets (with or without user RED1 / RED2), k_exp in [0, 1], both load-matching modes; non-renewable primary energy and CO2 (steps A and B) and grid-delivered energy (total and per step) must not increase, RER at k_exp = 0 must not decrease; non-trivial = the building has an electricity balance and the increment crosses the use at some step or lowers grid delivery; distinct = distinct (case, increment seed)".into(),
        assumptions: vec![
            "known finding K1 (method-inherent): a RER drop is attributed to it only if cogenerated electricity exists, its exported amount increased and RER with the exported-cogeneration step A resources held at the base level does not drop".into(),
            "comparison slack atol 1e-4 + rtol * cancellation scale".into(),
        ],
        quotas,
    }
}

pub fn replay(ctx: &Ctx, _monitor: &str, w: &Value) -> Option<Report> {
    let case: Case = serde_json::from_value(w["case"].clone()).ok()?;
    let mut t = Tally::default();
    let inc: Option<Vec<f32>> = serde_json::from_value(w["increment"].clone()).ok();
    check_case(ctx, &case, inc, &mut t);
    Some(Report { tally: t, rule: "replay".into(), assumptions: vec![], quotas: vec![] })
}
