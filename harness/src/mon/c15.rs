//! C15 — the renewable share of DHW demand is a fraction that depends only on DHW supply.
//!
//! A scenario generator composes the canonical supply mixes and computes the closed-form value in f64
//! from *its own parameters* (never from the library's intermediate results).

use super::common::*;
use crate::case::{gen_k, gen_user_red, Case, FacChoice, LOCS};
use crate::rng::Rng;
use crate::safe::{self, Out};
use crate::spec::*;
use crate::tally::Tally;
use crate::{run_sharded, Ctx, Report};
use cteepbd::cte;
use serde::{Deserialize, Serialize};
use serde_json::{json, Value};

const PROP: &str = "C15";

#[derive(Clone, Debug, Serialize, Deserialize)]
pub struct Scenario {
    pub case: Case,
    /// closed-form fraction, or None when the property says the indicator is not computable
    pub expected: Option<f64>,
    pub expect_error: Option<String>,
    pub mixes: Vec<String>,
}

fn vals(r: &mut Rng, n: usize, max: f64, pz: u64) -> Vec<f32> {
    (0..n).map(|_| if r.chance(pz, 10) { 0.0 } else { (1 + r.below((max * 8.0) as u64)) as f32 / 8.0 }).collect()
}
fn sum(v: &[f32]) -> f64 {
    v.iter().map(|x| *x as f64).sum()
}
fn used(id: i32, srv: &str, cr: &str, v: &[f32]) -> Line {
    Line::Used { id, srv: srv.into(), cr: cr.into(), v: v.to_vec(), comment: String::new() }
}

/// regulatory factor of a carrier (ren, nren) for the closed form
fn reg_factor(cr: &str) -> (f64, f64) {
    match cr {
        "BIOMASA" => (1.003, 0.034),
        "BIOMASADENSIFICADA" => (1.028, 0.085),
        _ => (0.0, 1.0),
    }
}

pub fn gen_scenario(r: &mut Rng) -> Option<Scenario> {
    let n = *r.pick(&[1usize, 1, 2, 3, 12, 12]);
    let z = vec![0.0f32; n];
    let red1 = gen_user_red(r).map(|mut v| {
        if v[0] + v[1] == 0.0 {
            v[1] = 1.0;
        }
        v
    });
    let red2 = gen_user_red(r).map(|mut v| {
        if v[0] + v[1] == 0.0 {
            v[1] = 1.0;
        }
        v
    });
    let fac = FacChoice::Loc { loc: r.pick(&LOCS).to_string(), red1, red2 };
    let fr_red = |x: &Option<[f32; 3]>| -> f64 {
        match x {
            Some(v) => v[0] as f64 / (v[0] as f64 + v[1] as f64),
            None => 0.0 / 1.3,
        }
    };
    let mut lines: Vec<Line> = vec![];
    let mut mixes: Vec<String> = vec![];
    let (joule, hp, st, dist, bio) = (r.chance(1, 2), r.chance(1, 2), r.chance(1, 3), r.chance(1, 3), r.chance(1, 3));
    if !(joule || hp || st || dist || bio) {
        return None;
    }
    let (mut e1, mut e2, mut a2, mut s3, mut g3, mut d4, mut d4b, mut b5, mut b6) = (z.clone(), z.clone(), z.clone(), z.clone(), z.clone(), z.clone(), z.clone(), z.clone(), z.clone());
    // demand supplied by each mix
    let mut dem = z.clone();
    if joule {
        e1 = vals(r, n, 50.0, 1);
        lines.push(used(1, "ACS", "ELECTRICIDAD", &e1));
        mixes.push("direct_electric".into());
    }
    // heat pump, possibly also heating (multi-service system with declared outputs)
    let hp_multi = hp && r.chance(1, 3);
    let mut q_acs2 = z.clone();
    let mut q_cal2 = z.clone();
    // documented exclusion: a heat pump whose SCOP is too low is tagged on its DHW ambient-heat consumption, which then does
    // not count as renewable supply (kept apart from the biomass-by-difference mixes, whose closed form the tag would
    // change in a way nothing documents)
    let low_scop = hp && !bio && r.chance(1, 4);
    const TAG: &str = "BdC de bajo rendimiento CTEEPBD_EXCLUYE_SCOP_ACS";
    if hp {
        e2 = vals(r, n, 30.0, 1);
        a2 = vals(r, n, 80.0, 1);
        lines.push(used(2, "ACS", "ELECTRICIDAD", &e2));
        lines.push(Line::Used { id: 2, srv: "ACS".into(), cr: "EAMBIENTE".into(), v: a2.clone(), comment: if low_scop { TAG.into() } else { String::new() } });
        mixes.push("heat_pump".into());
        if low_scop {
            mixes.push("heat_pump_low_scop_tag".into());
        }
        let mut amb_decl = a2.clone();
        let hp_decl = r.chance(1, 3);
        if hp_multi {
            let ec = vals(r, n, 30.0, 1);
            let ac = vals(r, n, 60.0, 1);
            for i in 0..n {
                amb_decl[i] += ac[i];
            }
            lines.push(used(2, "CAL", "ELECTRICIDAD", &ec));
            lines.push(used(2, "CAL", "EAMBIENTE", &ac));
            q_acs2 = (0..n).map(|i| e2[i] + a2[i]).collect();
            q_cal2 = (0..n).map(|i| ec[i] + ac[i]).collect();
            lines.push(Line::Out { id: 2, srv: "ACS".into(), v: q_acs2.clone(), comment: String::new() });
            lines.push(Line::Out { id: 2, srv: "CAL".into(), v: q_cal2.clone(), comment: String::new() });
            mixes.push("heat_pump_also_heating".into());
        }
        if hp_decl {
            // the ambient heat is declared as production of the system; a tool that copies the system's remark to every
            // line puts the tag there too, where it means nothing
            let tagged = low_scop || r.chance(1, 2);
            lines.push(Line::Prod { id: 2, src: "EAMBIENTE".into(), v: amb_decl, comment: if tagged { TAG.into() } else { String::new() } });
            mixes.push(if tagged { "declared_ambient_production_carrying_the_tag".into() } else { "declared_ambient_production".into() });
        }
    }
    if st {
        s3 = vals(r, n, 60.0, 1);
        g3 = vals(r, n, 80.0, 1);
        if sum(&g3) == 0.0 {
            g3[0] = 8.0; // an all-zero consumption of a non-nearby carrier is not a 'mix' the property decides
        }
        lines.push(used(3, "ACS", "TERMOSOLAR", &s3));
        lines.push(used(3, "ACS", "GASNATURAL", &g3));
        mixes.push("solar_thermal_plus_boiler".into());
    }
    if dist {
        d4 = vals(r, n, 60.0, 1);
        lines.push(used(4, "ACS", "RED1", &d4));
        mixes.push("district_RED1".into());
        if r.chance(1, 3) {
            d4b = vals(r, n, 40.0, 1);
            lines.push(used(4, "ACS", "RED2", &d4b));
            mixes.push("district_RED2".into());
        }
    }
    let bio_out = r.chance(1, 2);
    let bio_multi = bio && bio_out && r.chance(1, 3);
    let biocr = *r.pick(&["BIOMASA", "BIOMASADENSIFICADA"]);
    let two_bio = bio && r.chance(1, 5);
    let other_bio = if biocr == "BIOMASA" { "BIOMASADENSIFICADA" } else { "BIOMASA" };
    if bio {
        b5 = vals(r, n, 100.0, 1);
        if sum(&b5) == 0.0 {
            b5[0] = 16.0;
        }
        if r.chance(1, 3) {
            // the same consumption declared in two lines (e.g. two boilers of one system): they add up
            let a: Vec<f32> = b5.iter().map(|x| ((x * 8.0 * 0.375).floor()) / 8.0).collect();
            let b: Vec<f32> = b5.iter().zip(a.iter()).map(|(x, y)| x - y).collect();
            lines.push(used(5, "ACS", biocr, &a));
            lines.push(used(5, "ACS", biocr, &b));
            mixes.push("biomass_consumption_in_two_lines".into());
        } else {
            lines.push(used(5, "ACS", biocr, &b5));
        }
        mixes.push(format!("{}{}", biocr.to_lowercase(), if bio_out { "_with_output" } else { "_without_output" }));
        if bio_out {
            let o: Vec<f32> = b5.iter().map(|x| x * 0.75).collect();
            lines.push(Line::Out { id: 5, srv: "ACS".into(), v: o, comment: String::new() });
            if bio_multi {
                // the same boiler also heats: its heating input and output are declared too, only the DHW output counts
                let hc = vals(r, n, 120.0, 1);
                let ho: Vec<f32> = hc.iter().map(|x| x * 0.75).collect();
                lines.push(used(5, "CAL", biocr, &hc));
                lines.push(Line::Out { id: 5, srv: "CAL".into(), v: ho, comment: String::new() });
                mixes.push("biomass_system_also_heating_with_declared_outputs".into());
            }
        }
        if two_bio {
            b6 = vals(r, n, 50.0, 1);
            if sum(&b6) == 0.0 {
                b6[0] = 4.0;
            }
            lines.push(used(6, "ACS", other_bio, &b6));
            mixes.push("two_biomass_types".into());
            if bio_out {
                let o: Vec<f32> = b6.iter().map(|x| x * 0.75).collect();
                lines.push(Line::Out { id: 6, srv: "ACS".into(), v: o, comment: String::new() });
            }
        }
    }
    // auxiliaries of a DHW system
    let mut w = z.clone();
    // direct electric DHW whose consumption is tiny next to large auxiliaries of the same system (a circulation pump that
    // runs all year, an immersion heater used once): still electricity used for DHW beyond the auxiliaries, clear of the
    // library's guard max(0.01 kWh, 1e-4 x auxiliaries) by a third at least
    let tiny_joule = joule && !hp && r.chance(1, 5);
    if tiny_joule {
        let aux_total = (110 + r.below(80)) as f32;
        w[r.usize(n)] = aux_total;
        let x = if r.chance(1, 2) { 0.02f32 } else { ((aux_total as f64 * 0.005 * 100.0).round() / 100.0) as f32 };
        e1 = z.clone();
        e1[r.usize(n)] = x;
        for l in lines.iter_mut() {
            if let Line::Used { id: 1, srv, cr, v, .. } = l {
                if srv == "ACS" && cr == "ELECTRICIDAD" {
                    *v = e1.clone();
                }
            }
        }
        lines.push(Line::Aux { id: 1, v: w.clone(), comment: String::new() });
        mixes.push("auxiliaries".into());
        mixes.push("direct_electric_tiny_next_to_large_auxiliaries".into());
    }
    let aux = !tiny_joule && r.chance(1, 3) && !(bio_multi && !joule && !hp && !dist);
    // auxiliaries of an electric DHW system, or (DHW electricity = auxiliaries only) of a non-electric one
    let auxid = if joule {
        1
    } else if hp {
        2
    } else if dist {
        4
    } else if bio {
        5
    } else {
        3
    };
    if aux {
        w = vals(r, n, 5.0, 1);
        lines.push(Line::Aux { id: auxid, v: w.clone(), comment: String::new() });
        mixes.push("auxiliaries".into());
        if r.chance(1, 2) {
            // a second AUX line for the same system (e.g. one per pump)
            let w2 = vals(r, n, 3.0, 1);
            lines.push(Line::Aux { id: auxid, v: w2.clone(), comment: String::new() });
            for i in 0..n {
                w[i] += w2[i];
            }
        }
        if !(joule || hp) {
            mixes.push("auxiliaries_are_the_only_dhw_electricity".into());
        }
    }
    // auxiliaries of a second, single-service DHW system (all of them belong to DHW)
    let mut wb = z.clone();
    if aux {
        let mut others: Vec<i32> = vec![];
        if hp && auxid != 2 && !hp_multi {
            others.push(2);
        }
        if st && auxid != 3 {
            others.push(3);
        }
        if dist && auxid != 4 {
            others.push(4);
        }
        if bio && auxid != 5 && !bio_multi {
            others.push(5);
        }
        if !others.is_empty() && r.chance(1, 2) {
            let id2 = *r.pick(&others);
            wb = vals(r, n, 4.0, 1);
            lines.push(Line::Aux { id: id2, v: wb.clone(), comment: String::new() });
            mixes.push("auxiliaries_on_two_dhw_systems".into());
        }
    }
    // part of the auxiliaries that belongs to DHW
    let w_acs: Vec<f64> = (0..n)
        .map(|i| {
            if auxid == 2 && hp_multi {
                let q = q_acs2[i] as f64 + q_cal2[i] as f64;
                if q > 0.0 {
                    w[i] as f64 * q_acs2[i] as f64 / q
                } else {
                    // no output at this step: annual shares
                    let (qa, qc) = (sum(&q_acs2), sum(&q_cal2));
                    w[i] as f64 * qa / (qa + qc)
                }
            } else {
                w[i] as f64
            }
        })
        .collect();
    if auxid == 2 && hp_multi && sum(&w) > 0.0 && sum(&q_acs2) + sum(&q_cal2) == 0.0 {
        return None;
    }
    // other electric EPB uses, PV shared with them, optional gas cogeneration
    let ilu = vals(r, n, 40.0, 2);
    lines.push(used(0, "ILU", "ELECTRICIDAD", &ilu));
    let cal_el2: Vec<f32> = lines.iter().filter_map(|l| match l { Line::Used { id: 2, srv, cr, v, .. } if srv == "CAL" && cr == "ELECTRICIDAD" => Some(v.clone()), _ => None }).next().unwrap_or(z.clone());
    if r.chance(1, 2) {
        lines.push(used(0, "CAL", "GASNATURAL", &vals(r, n, 100.0, 2)));
    }
    let pv = if r.chance(2, 3) {
        let m = *r.pick(&[20.0, 100.0, 300.0]);
        vals(r, n, m, 2)
    } else {
        z.clone()
    };
    if pv.iter().any(|x| *x > 0.0) {
        lines.push(Line::Prod { id: 0, src: "EL_INSITU".into(), v: pv.clone(), comment: String::new() });
        mixes.push("pv_shared_with_other_services".into());
    }
    let chp = if r.chance(1, 6) {
        let v = vals(r, n, 60.0, 2);
        lines.push(Line::Prod { id: 9, src: "EL_COGEN".into(), v: v.clone(), comment: String::new() });
        let mut fuel = vals(r, n, 150.0, 1);
        if fuel.iter().all(|x| *x == 0.0) {
            fuel[0] = 10.0;
        }
        lines.push(used(9, "COGEN", "GASNATURAL", &fuel));
        mixes.push("gas_cogeneration_present".into());
        v
    } else {
        z.clone()
    };
    for i in 0..n {
        dem[i] = e1[i] + e2[i] + a2[i] + s3[i] + 0.875 * g3[i] + d4[i] + d4b[i] + 0.75 * b5[i] + 0.75 * b6[i];
    }
    let dem_an = sum(&dem);
    let lm = r.chance(1, 3);
    if lm {
        mixes.push("load_matching".into());
    }
    // ---- closed form
    let mut pv_acs = 0.0f64;
    let mut el_acs = 0.0f64;
    let mut w_acs_an = 0.0f64;
    for i in 0..n {
        let eacs = e1[i] as f64 + e2[i] as f64 + w_acs[i] + wb[i] as f64;
        let u = e1[i] as f64 + e2[i] as f64 + w[i] as f64 + wb[i] as f64 + ilu[i] as f64 + cal_el2[i] as f64;
        let p = pv[i] as f64;
        let ptot = p + chp[i] as f64;
        let f = if lm && u > 0.0 && ptot > 0.0 {
            let x = ptot / u;
            (x + 1.0 / x - 1.0) / (x + 1.0 / x)
        } else {
            1.0
        };
        if u > 0.0 {
            pv_acs += f * p.min(u) * eacs / u;
        }
        el_acs += eacs;
        w_acs_an += w_acs[i] + wb[i] as f64;
    }
    let nonaux = if el_acs > 0.0 { 1.0 - w_acs_an / el_acs } else { 1.0 };
    let nearby_tot = sum(&a2) + sum(&s3) + sum(&d4) + sum(&d4b);
    let a2_ren = if low_scop { 0.0 } else { sum(&a2) };
    let mut ren = a2_ren + sum(&s3) + sum(&d4) * fr_red(&red1) + sum(&d4b) * fr_red(&red2) + pv_acs * nonaux;
    // electricity counts as a DHW carrier only beyond the auxiliaries
    let el_non_aux = sum(&e1) + sum(&e2);
    let only_nearby = !(el_non_aux > 0.0) && !(st && sum(&g3) > 0.0);
    let mut expect_error = None;
    let bio_used = bio && sum(&b5) > 0.0;
    let bio2_used = two_bio && sum(&b6) > 0.0;
    let frb = |c: &str| {
        let (a, b) = reg_factor(c);
        a / (a + b)
    };
    if bio_used || bio2_used {
        let one_type = bio_used != bio2_used;
        if only_nearby && one_type {
            let c = if bio_used { biocr } else { other_bio };
            ren += (dem_an - nearby_tot) * frb(c);
        } else if bio_out {
            ren += 0.75 * sum(&b5) * frb(biocr) + 0.75 * sum(&b6) * frb(other_bio);
        } else {
            expect_error = Some("biomass mixed with another carrier without declared output energy".to_string());
        }
    }
    if dem_an == 0.0 {
        return None;
    }
    let mut spec = Spec { n, meta: vec![], lines };
    let mut mixes = mixes;
    if r.chance(1, 6) {
        // the demand declared with more values than the components (monthly needs next to annual or seasonal
        // components): accepted by the parser, only its total matters - each value written as two halves
        let long: Vec<f32> = dem.iter().map(|x| x / 2.0).chain(dem.iter().map(|x| x / 2.0)).collect();
        spec.lines.push(Line::Need { srv: "ACS".into(), v: long });
        mixes.push("demand_series_longer_than_the_components".into());
    } else {
        spec.lines.push(Line::Need { srv: "ACS".into(), v: dem.clone() });
    }
    if r.chance(1, 2) {
        r.shuffle(&mut spec.lines);
    }
    let case = Case { spec, fac, k: gen_k(r), area: *r.pick(&[10.0f32, 1.0, 250.5]), lm, sub_seed: r.next() };
    Some(Scenario { case, expected: if expect_error.is_some() { None } else { Some(ren / dem_an) }, expect_error, mixes })
}

fn fraction(case: &Case, t: &mut Tally) -> Option<Out<f32>> {
    let (comps, fac) = prepare(PROP, case, t)?;
    let ep = eval(PROP, case, &comps, &fac, case.k, case.area, case.lm, t)?;
    Some(safe::guard(|| cte::fraccion_renovable_acs_nrb(&ep)))
}

pub fn check_scenario(_ctx: &Ctx, sc: &Scenario, t: &mut Tally) {
    let case = &sc.case;
    let wit = |extra: Value| {
        let mut w = case.witness();
        w["scenario"] = json!(sc);
        w["observed"] = extra;
        w
    };
    let Some((comps, fac)) = prepare(PROP, case, t) else {
        t.count("scenario_rejected_at_parse");
        return;
    };
    let Some(ep) = eval(PROP, case, &comps, &fac, case.k, case.area, case.lm, t) else { return };
    let got = safe::guard(|| cte::fraccion_renovable_acs_nrb(&ep));
    for m in &sc.mixes {
        t.count(&format!("mix.{m}"));
    }
    // rounding noise of the fraction: f32 differences of electricity sums divided by the declared demand (amplified when
    // the demand is tiny against the DHW-related energies, e.g. 0.02 kWh of direct electric next to 150 kWh of auxiliaries)
    let noise = super::common::dhw_noise_band(&case.spec).1;
    let value = match (&got, &sc.expected) {
        (Out::Panic(m), _) => {
            t.violation("C15.indicator_panicked", format!("fraccion_renovable_acs_nrb panicked: {m}"), || wit(json!({})));
            return;
        }
        (Out::Err(..), None) => {
            t.count("not_computable.error_reported");
            None
        }
        (Out::Ok(v), None) => {
            t.violation("C15.number_where_not_computable", format!("{}: the indicator reports {v} instead of an error", sc.expect_error.clone().unwrap_or_default()), || wit(json!({"reported": v})));
            None
        }
        (Out::Err(v, m), Some(e)) => {
            t.violation("C15.error_for_computable_mix", format!("the indicator fails ({v}: {m}) for a supported mix; closed form gives {e}"), || wit(json!({"expected": e})));
            None
        }
        (Out::Ok(v), Some(e)) => {
            let v = *v as f64;
            if !(v >= -1e-5 - noise && v <= 1.0 + 1e-5 + noise) {
                t.violation("C15.outside_unit_interval", format!("renewable DHW fraction {v} is not in [0, 1]"), || wit(json!({"reported": v})));
            }
            if (v - e).abs() > 1e-4 + noise {
                t.violation("C15.differs_from_closed_form", format!("renewable DHW fraction {v}, closed form for {:?} gives {e}", sc.mixes), || wit(json!({"reported": v, "expected": e})));
            } else {
                t.max("largest_difference_to_closed_form", (v - e).abs());
            }
            t.count("closed_form_comparisons");
            Some(v)
        }
    };
    // misc map: exactly one of the two keys
    match safe::guard_plain(|| cte::incorpora_demanda_renovable_acs_nrb(ep.clone())) {
        Out::Ok(ep2) => {
            let m = ep2.misc.as_ref();
            let has_v = m.map(|m| m.contains_key("fraccion_renovable_demanda_acs_nrb")).unwrap_or(false);
            let has_e = m.map(|m| m.contains_key("error_acs")).unwrap_or(false);
            if has_v == has_e || has_v != got.is_ok() {
                t.violation("C15.misc_keys", format!("misc has value key: {has_v}, error key: {has_e}; the indicator itself returned {}", got.describe()), || wit(json!({})));
            }
            if let (Some(v), Some(s)) = (value, m.and_then(|m| m.get("fraccion_renovable_demanda_acs_nrb"))) {
                if s.parse::<f64>().map(|x| (x - v).abs() > 5.1e-4).unwrap_or(true) {
                    t.violation("C15.misc_value", format!("misc records {s} for a fraction of {v}"), || wit(json!({})));
                }
            }
        }
        Out::Panic(m) => t.violation("C15.indicator_panicked", format!("incorpora_demanda_renovable_acs_nrb panicked: {m}"), || wit(json!({}))),
        _ => {}
    }
    // ... also when the result comes with a `misc` map left by an earlier evaluation (a result read back from JSON, a
    // result object reused): the stale key of the other kind must go
    {
        let mut stale = ep.clone();
        stale.misc = serde_json::from_value(json!({"fraccion_renovable_demanda_acs_nrb": "0.123", "error_acs": "ERROR: de una evaluación anterior", "otra_clave": "se conserva"})).ok();
        if let Out::Ok(ep3) = safe::guard_plain(|| cte::incorpora_demanda_renovable_acs_nrb(stale)) {
            let m = ep3.misc.as_ref();
            let has_v = m.map(|m| m.contains_key("fraccion_renovable_demanda_acs_nrb")).unwrap_or(false);
            let has_e = m.map(|m| m.contains_key("error_acs")).unwrap_or(false);
            if has_v == has_e || has_v != got.is_ok() {
                t.violation("C15.misc_keys", format!("a result that carried both keys from an earlier evaluation: after the indicator is recorded again misc has value key: {has_v}, error key: {has_e}; the indicator itself returned {}", got.describe()), || wit(json!({})));
            }
            t.count("misc_maps_with_stale_keys_checked");
        }
    }
    // ---- invariances
    if let Some(v) = value {
        let mut r = Rng::new(case.sub_seed);
        let n = case.spec.n;
        let mut variants: Vec<(&str, Case)> = vec![];
        let mut c = case.clone();
        c.spec.lines.push(used(0, "NEPB", "ELECTRICIDAD", &vals(&mut r, n, 100.0, 2)));
        c.spec.lines.push(used(0, "NEPB", *r.pick(&["GASNATURAL", "EAMBIENTE", "BIOMASA", "RED1"]), &vals(&mut r, n, 100.0, 2)));
        variants.push(("non_epb_consumption", c));
        let mut c = case.clone();
        c.spec.lines.push(used(7, "CAL", *r.pick(&["GASOLEO", "BIOMASA", "RED2", "EAMBIENTE", "GLP"]), &vals(&mut r, n, 100.0, 2)));
        c.spec.lines.push(used(8, "REF", *r.pick(&["GASNATURAL", "TERMOSOLAR"]), &vals(&mut r, n, 100.0, 2)));
        variants.push(("other_services_non_electric_consumption", c));
        // ... also when those lines carry the remark of a low-SCOP heat pump (a tool copying a system's remark to all its
        // lines, a heating heat pump tagged by analogy): the tag excludes *DHW* ambient heat, nothing else
        let mut c = case.clone();
        c.spec.lines.push(Line::Used { id: 7, srv: "CAL".into(), cr: "EAMBIENTE".into(), v: vals(&mut r, n, 100.0, 2), comment: "BdC calefacción CTEEPBD_EXCLUYE_SCOP_ACS".into() });
        if r.chance(1, 2) {
            c.spec.lines.push(Line::Used { id: 0, srv: "NEPB".into(), cr: "EAMBIENTE".into(), v: vals(&mut r, n, 50.0, 2), comment: "CTEEPBD_EXCLUYE_SCOP_ACS".into() });
        }
        variants.push(("other_services_ambient_heat_carrying_the_low_scop_tag", c));
        let mut c = case.clone();
        c.k = if case.k == 1.0 { 0.0 } else { 1.0 - case.k };
        variants.push(("k_exp", c));
        let mut c = case.clone();
        c.area = case.area * 3.5;
        variants.push(("area", c));
        let mut c = case.clone();
        c.area = *r.pick(&[3.0e9f32, 1.0e12, 0.0011]);
        variants.push(("area_extreme", c));
        let mut c = case.clone();
        let j = *r.pick(&[-2i32, 1, 3, 6]);
        // scaling down must not take a declared amount below 0.01 kWh (the domain of the statement, and the side of the
        // library's absolute guard the amount is on)
        let smallest = case.spec.lines.iter().flat_map(|l| l.values().iter()).filter(|x| **x > 0.0).fold(f32::INFINITY, |a, x| a.min(*x));
        let j = if j < 0 && smallest * 2f32.powi(j) < 0.05 { 2 } else { j };
        c.spec = c.spec.scaled(2f32.powi(j));
        variants.push(("scaling", c));
        for (name, c) in variants {
            match fraction(&c, t) {
                Some(Out::Ok(v2)) if (v2 as f64 - v).abs() <= 2e-5 + 2.0 * noise => t.count(&format!("invariance.{name}.held")),
                Some(other) => t.violation(
                    &format!("C15.changes_with.{name}"),
                    format!("renewable DHW fraction {v} becomes {} under {name}", other.describe_value()),
                    || {
                        let mut w = wit(json!({"variant": name}));
                        w["variant_components"] = json!(c.spec.to_text());
                        w
                    },
                ),
                None => t.count("invariance.variant_not_evaluable"),
            }
        }
    }
    // ---- documented non-computable classes derived from this scenario
    let mut no_dem = case.clone();
    no_dem.spec.lines.retain(|l| !matches!(l, Line::Need { .. }));
    match fraction(&no_dem, t) {
        Some(Out::Ok(v)) => t.violation("C15.number_without_declared_demand", format!("no DHW demand declared but the indicator reports {v}"), || wit(json!({"variant": "no DEMANDA line"}))),
        Some(Out::Err(..)) => t.count("not_computable.no_demand.error_reported"),
        Some(Out::Panic(m)) => t.violation("C15.indicator_panicked", format!("panicked without declared demand: {m}"), || wit(json!({}))),
        None => {}
    }
    let mut zero_dem = case.clone();
    for l in zero_dem.spec.lines.iter_mut() {
        if let Line::Need { v, .. } = l {
            v.iter_mut().for_each(|x| *x = 0.0);
        }
    }
    match fraction(&zero_dem, t) {
        Some(Out::Ok(v)) => t.violation("C15.number_with_zero_demand", format!("DHW demand is zero but the indicator reports {v}"), || wit(json!({"variant": "zero demand"}))),
        Some(Out::Err(..)) => t.count("not_computable.zero_demand.error_reported"),
        Some(Out::Panic(m)) => t.violation("C15.indicator_panicked", format!("panicked with zero demand: {m}"), || wit(json!({}))),
        None => {}
    }
    if sc.mixes.len() >= 3 {
        t.nontrivial(case.hash());
        t.sample(|| {
            let mut s = short_case(case);
            s["mixes"] = json!(sc.mixes);
            s["closed_form"] = json!(sc.expected);
            s["reported"] = json!(value);
            s
        });
    }
}

trait DescribeValue {
    fn describe_value(&self) -> String;
}
impl DescribeValue for Out<f32> {
    fn describe_value(&self) -> String {
        match self {
            Out::Ok(v) => format!("{v}"),
            o => o.describe(),
        }
    }
}

pub fn run(ctx: &Ctx) -> Report {
    let total = ctx.cases(8_000, 400_000);
    let tally = run_sharded(ctx, total, |_idx, r, t| {
        let Some(sc) = gen_scenario(r) else {
            t.count("empty_scenarios_skipped");
            return;
        };
        check_scenario(ctx, &sc, t);
    });
    let mut quotas = vec![("closed_form_comparisons".to_string(), tally.get("closed_form_comparisons"), 3000), ("not_computable.error_reported".to_string(), tally.get("not_computable.error_reported"), 50)];
    for m in ["direct_electric", "heat_pump", "heat_pump_also_heating", "solar_thermal_plus_boiler", "district_RED1", "district_RED2", "auxiliaries", "auxiliaries_on_two_dhw_systems", "auxiliaries_are_the_only_dhw_electricity", "pv_shared_with_other_services", "load_matching", "two_biomass_types", "biomass_consumption_in_two_lines", "gas_cogeneration_present"] {
        quotas.push((format!("mix.{m}"), tally.get(&format!("mix.{m}")), 50));
    }
    for i in ["non_epb_consumption", "other_services_non_electric_consumption", "k_exp", "area", "area_extreme", "scaling"] {
        quotas.push((format!("invariance.{i}.held"), tally.get(&format!("invariance.{i}.held")), 1000));
    }
    Report {
        tally,
        rule: "DHW scenarios composed from the canonical mixes (direct electric, heat pump - optionally also heating with split auxiliaries -, solar thermal + gas boiler, RED1 / RED2 with user factors, biomass / densified biomass with or without declared output, auxiliaries on one or two DHW systems, PV shared with other services, gas cogeneration present, load matching), DEMANDA ACS set to the sum of the demand each mix supplies; the reported fraction is compared with the closed form computed from the generator's parameters, must lie in [0, 1], must not change under added non-EPB consumption, other services' non-electric consumption, another k_exp, another area, scaling by 2^j, and must be an error without demand, with zero demand and for biomass mixed with a non-nearby carrier without output; non-trivial = at least three mixes combined; distinct = distinct scenario; second session: low-SCOP tag on the DHW ambient-heat line (closed form without that heat), on declared ambient production and on other services' / non-EPB ambient-heat lines (no effect), declared ambient production, demand written with twice as many values as the components, direct electric DHW of 0.02 kWh .. 0.5 % of large auxiliaries; comparisons carry the fraction's rounding band 3e-6 x DHW-related energy / demand".into(),
        assumptions: vec!["closed form tolerance 1e-4 absolute (f32 library, fraction in [0, 1])".into(), "cogeneration fed by nearby fuels is not among the canonical mixes of the property and is not generated".into()],
        quotas,
    }
}

pub fn replay(ctx: &Ctx, _monitor: &str, w: &Value) -> Option<Report> {
    let sc: Scenario = serde_json::from_value(w["scenario"].clone()).ok()?;
    let mut t = Tally::default();
    check_scenario(ctx, &sc, &mut t);
    Some(Report { tally: t, rule: "replay".into(), assumptions: vec![], quotas: vec![] })
}
