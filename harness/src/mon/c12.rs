//! C12 — on-site electricity is used first; load matching can only lower self-use.

use super::common::*;
use crate::case::{gen_case, Case};
use crate::gen::{GenOpts, Tri};
use crate::spec::Line;
use crate::tally::Tally;
use crate::{run_sharded, Ctx, Report};
use cteepbd::types::{BalanceCarrier, Carrier, ProdSource};
use serde_json::{json, Value};

const PROP: &str = "C12";

fn src(b: &BalanceCarrier, m: &std::collections::HashMap<ProdSource, Vec<f32>>, s: ProdSource, i: usize) -> f64 {
    let _ = b;
    m.get(&s).map(|v| v[i] as f64).unwrap_or(0.0)
}

pub fn check_case(_ctx: &Ctx, case: &Case, t: &mut Tally) {
    let Some((comps, fac)) = prepare(PROP, case, t) else { return };
    let Some(e_off) = eval(PROP, case, &comps, &fac, case.k, case.area, false, t) else { return };
    let Some(e_on) = eval(PROP, case, &comps, &fac, case.k, case.area, true, t) else { return };
    let (Some(b_off), Some(b_on)) = (e_off.balance_cr.get(&Carrier::ELECTRICIDAD), e_on.balance_cr.get(&Carrier::ELECTRICIDAD)) else {
        t.count("cases_without_electricity");
        return;
    };
    let n = case.spec.n;
    // declared on-site and cogenerated electricity per step
    let mut pv_decl = vec![0.0f64; n];
    let mut chp_decl = vec![0.0f64; n];
    for l in &case.spec.lines {
        if let Line::Prod { src, v, .. } = l {
            let tgt = match src.as_str() {
                "EL_INSITU" => &mut pv_decl,
                "EL_COGEN" => &mut chp_decl,
                _ => continue,
            };
            for i in 0..n {
                tgt[i] += v[i] as f64;
            }
        }
    }
    let mut two_sources_steps = 0;
    for (lm, b) in [(false, b_off), (true, b_on)] {
        let mode = if lm { "lm" } else { "nolm" };
        if b.f_match.len() != n {
            t.violation("C12.vector_length", "f_match does not have one value per step".into(), || case.witness());
            return;
        }
        for i in 0..n {
            let u = b.used.epus_t[i] as f64;
            let p = b.prod.t[i] as f64;
            let pv = src(b, &b.prod.by_src_t, ProdSource::EL_INSITU, i);
            let chp = src(b, &b.prod.by_src_t, ProdSource::EL_COGEN, i);
            let pvu = src(b, &b.prod.epus_by_src_t, ProdSource::EL_INSITU, i);
            let chpu = src(b, &b.prod.epus_by_src_t, ProdSource::EL_COGEN, i);
            let fm = b.f_match[i] as f64;
            let sc = u.max(p);
            let eps = 3e-6 * sc + 1e-9;
            let wit = |what: &str| {
                let mut w = case.witness();
                w["observed"] = json!({"load_matching": lm, "step": i, "use": u, "pv": pv, "chp": chp, "pv_used": pvu, "chp_used": chpu, "f_match": fm, "what": what});
                w
            };
            // sources as declared
            if (pv - pv_decl[i]).abs() > 2e-6 * pv_decl[i] + 1e-9 || (chp - chp_decl[i]).abs() > 2e-6 * chp_decl[i] + 1e-9 {
                t.violation("C12.sources_not_as_declared", format!("step {i}: on-site {pv} / cogenerated {chp} in the balance, {} / {} declared", pv_decl[i], chp_decl[i]), || wit("sources"));
            }
            // the matching factor
            let want_f = if !lm || !(u > 0.0) || !(p > 0.0) {
                1.0
            } else {
                let x = p / u;
                (x + 1.0 / x - 1.0) / (x + 1.0 / x)
            };
            if (fm - want_f).abs() > 2e-6 {
                t.violation("C12.f_match_formula", format!("step {i} ({mode}): f_match = {fm}, formula gives {want_f} for production {p} / use {u}"), || wit("f_match"));
            }
            if !(fm >= 0.5 - 1e-6 && fm <= 1.0 + 1e-6) {
                t.violation("C12.f_match_range", format!("step {i} ({mode}): f_match = {fm} outside [0.5, 1]"), || wit("f_match range"));
            }
            // on-site first
            if chpu > eps && (pvu - fm * pv).abs() > eps {
                t.violation("C12.cogeneration_used_before_onsite_is_exhausted", format!("step {i} ({mode}): cogenerated electricity used = {chpu} while only {pvu} of the on-site production {pv} (x f_match {fm}) is allocated"), || wit("priority"));
            }
            let want_pvu = fm * pv.min(u);
            let want_chpu = fm * chp.min((u - pv.min(u)).max(0.0));
            if (pvu - want_pvu).abs() > eps || (chpu - want_chpu).abs() > eps {
                t.violation("C12.allocation", format!("step {i} ({mode}): allocated on-site {pvu} / cogenerated {chpu}, expected {want_pvu} / {want_chpu} (use {u}, on-site {pv}, cogenerated {chp}, f_match {fm})"), || wit("allocation"));
            }
            if pvu + chpu > u + eps {
                t.violation("C12.allocations_exceed_use", format!("step {i} ({mode}): on-site {pvu} + cogenerated {chpu} allocated to an EPB use of {u}"), || wit("exceeds"));
            }
            if pvu > pv + eps || chpu > chp + eps || pvu < -eps || chpu < -eps {
                t.violation("C12.allocation_exceeds_source", format!("step {i} ({mode}): allocated {pvu} of {pv} on-site, {chpu} of {chp} cogenerated"), || wit("source bound"));
            }
            let reg = if u == 0.0 {
                "zero_use"
            } else if pv + chp == 0.0 {
                "zero_production"
            } else if pv >= u {
                "pv_covers_use"
            } else if pv + chp >= u {
                "pv_plus_chp_covers_use"
            } else {
                "use_exceeds_production"
            };
            t.count(&format!("regime.{mode}.{reg}"));
            if pv > 0.0 && chp > 0.0 {
                two_sources_steps += 1;
            }
            t.count("steps_checked");
        }
    }
    // load matching only lowers self-use / raises grid delivery
    for i in 0..n {
        let (pu_on, pu_off) = (b_on.prod.epus_t[i] as f64, b_off.prod.epus_t[i] as f64);
        let (dg_on, dg_off) = (b_on.del.grid_t[i] as f64, b_off.del.grid_t[i] as f64);
        let eps = 3e-6 * pu_off.max(dg_on) + 1e-9;
        if pu_on > pu_off + eps || dg_on < dg_off - eps {
            t.violation(
                "C12.load_matching_raises_self_use",
                format!("step {i}: with load matching produced-and-used = {pu_on} (without: {pu_off}), grid delivery = {dg_on} (without: {dg_off})"),
                || {
                    let mut w = case.witness();
                    w["observed"] = json!({"step": i, "epus_on": pu_on, "epus_off": pu_off, "grid_on": dg_on, "grid_off": dg_off});
                    w
                },
            );
        }
        if pu_on < pu_off - eps {
            t.count("steps_where_load_matching_lowers_self_use");
        }
    }
    if two_sources_steps > 0 {
        t.count("cases_with_both_sources_at_some_step");
        t.nontrivial(case.hash());
        t.sample(|| short_case(case));
    }
}

pub fn run(ctx: &Ctx) -> Report {
    let total = ctx.cases(12_000, 500_000);
    let mut o = GenOpts::default();
    o.long_steps = ctx.thorough();
    let tally = run_sharded(ctx, total, |idx, r, t| {
        let mut o = o.clone();
        match r.below(4) {
            0 => {
                o.pv = Tri::Always;
                o.cogen = Tri::Always;
            }
            1 => o.pv = Tri::Always,
            2 => o.cogen = Tri::Always,
            _ => {}
        }
        if idx % 2000 == 7 {
            // hourly series (a plain and a leap year) and a half-hourly one: the matching factor is a per-step formula whatever the step length
            o.steps = Some(*r.pick(&[8760usize, 8784, 17520]));
            o.pv = Tri::Always;
            t.count("hourly_series");
        }
        let case = gen_case(r, &o, 20);
        check_case(ctx, &case, t);
    });
    let mut quotas = vec![];
    for m in ["lm", "nolm"] {
        for reg in ["zero_use", "zero_production", "pv_covers_use", "pv_plus_chp_covers_use", "use_exceeds_production"] {
            quotas.push((format!("regime.{m}.{reg}"), tally.get(&format!("regime.{m}.{reg}")), 200));
        }
    }
    quotas.push(("hourly_series".into(), tally.get("hourly_series"), 1));
    quotas.push(("cases_with_both_sources_at_some_step".into(), tally.get("cases_with_both_sources_at_some_step"), 300));
    quotas.push(("steps_where_load_matching_lowers_self_use".into(), tally.get("steps_where_load_matching_lowers_self_use"), 300));
    Report {
        tally,
        rule: "generated buildings with on-site and / or cogenerated electricity in which each of the five per-step regimes (PV >= use, PV < use <= PV + CHP, use > PV + CHP, zero production, zero use) is planted, evaluated without and with load matching; per step: sources as declared, f_match formula and range, allocation on-site first then cogeneration, bounds, and load matching never raising self-use nor lowering grid delivery; non-trivial = some step has both on-site and cogenerated production; distinct = distinct (components text, factors, k_exp, area); six hourly series (8760 / 8784 steps) per quick run".into(),
        assumptions: vec!["rounding slack 3e-6 of max(use, production) per step".into()],
        quotas,
    }
}

pub fn replay(ctx: &Ctx, _monitor: &str, w: &Value) -> Option<Report> {
    let case: Case = serde_json::from_value(w["case"].clone()).ok()?;
    let mut t = Tally::default();
    check_case(ctx, &case, &mut t);
    Some(Report { tally: t, rule: "replay".into(), assumptions: vec![], quotas: vec![] })
}
