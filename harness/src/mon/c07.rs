//! C07 — preparing weighting factors: complete, respectful of user values, idempotent.

use super::common::*;
use crate::case::{gen_user_file, gen_user_red, Case, FacChoice, FacOpts, LOCS};
use crate::gen::{self, GenOpts, Tri};
use crate::rng::Rng;
use crate::safe::{self, Out};
use crate::spec::*;
use crate::tally::Tally;
use crate::{run_sharded, Ctx, Report};
use cteepbd::{cte, Factors};
use serde_json::{json, Value};
use std::collections::BTreeMap;

const PROP: &str = "C07";
type Key = (String, String, String, String);

fn parse_lines(text: &str) -> Vec<(Key, [f32; 3])> {
    let mut out = vec![];
    for l in text.lines() {
        let l = l.trim();
        if l.is_empty() || l.starts_with('#') || l.starts_with("vector,") {
            continue;
        }
        let body = l.split('#').next().unwrap_or("");
        let it: Vec<&str> = body.split(',').map(|s| s.trim()).collect();
        if it.len() < 7 {
            continue;
        }
        let f = [it[4].parse().unwrap_or(f32::NAN), it[5].parse().unwrap_or(f32::NAN), it[6].parse().unwrap_or(f32::NAN)];
        out.push(((it[0].to_string(), it[1].to_string(), it[2].to_string(), it[3].to_string()), f));
    }
    out
}

fn lines_of(f: &Factors) -> Vec<(Key, [f32; 3])> {
    f.wdata.iter().map(|x| ((x.carrier.to_string(), x.source.to_string(), x.dest.to_string(), x.step.to_string()), [x.ren, x.nren, x.co2])).collect()
}

fn key(cr: &str, src: &str, dest: &str, step: &str) -> Key {
    (cr.to_string(), src.to_string(), dest.to_string(), step.to_string())
}

#[derive(Debug)]
enum Expect {
    /// prepared set as first-match map, and for each key whether it is a user-supplied value
    Ok(BTreeMap<Key, ([f32; 3], &'static str)>),
    /// a carrier of the file has no grid supply factor
    Reject(String),
}

/// what preparing `input` with user RED1/RED2 must give, from the property text
fn expect_prepared(input: &[(Key, [f32; 3])], red1: Option<[f32; 3]>, red2: Option<[f32; 3]>) -> Expect {
    let mut m: BTreeMap<Key, ([f32; 3], &'static str)> = BTreeMap::new();
    for (k, f) in input {
        m.entry(k.clone()).or_insert((*f, "file"));
    }
    for (cr, u) in [("RED1", red1), ("RED2", red2)] {
        if let Some(u) = u {
            m.insert(key(cr, "RED", "SUMINISTRO", "A"), (u, "user"));
        }
    }
    let carriers: Vec<String> = {
        let mut v: Vec<String> = m.keys().map(|k| k.0.clone()).collect();
        v.sort();
        v.dedup();
        v
    };
    let one = [1.0f32, 0.0, 0.0];
    for cr in ["EAMBIENTE", "TERMOSOLAR"] {
        m.insert(key(cr, "INSITU", "SUMINISTRO", "A"), (one, "method"));
        m.insert(key(cr, "RED", "SUMINISTRO", "A"), (one, "method"));
    }
    let has_el = carriers.iter().any(|c| c == "ELECTRICIDAD");
    if has_el {
        m.insert(key("ELECTRICIDAD", "INSITU", "SUMINISTRO", "A"), (one, "method"));
    }
    for cr in &carriers {
        if !m.contains_key(&key(cr, "RED", "SUMINISTRO", "A")) {
            return Expect::Reject(cr.clone());
        }
    }
    for cr in ["ELECTRICIDAD", "EAMBIENTE", "TERMOSOLAR"] {
        let supply = m.get(&key(cr, "INSITU", "SUMINISTRO", "A")).map(|x| x.0);
        let grid = m.get(&key(cr, "RED", "SUMINISTRO", "A")).map(|x| x.0);
        for dest in ["A_RED", "A_NEPB"] {
            if let Some(s) = supply {
                m.entry(key(cr, "INSITU", dest, "A")).or_insert((s, "default:on-site supply factor"));
            }
            if let Some(g) = grid {
                m.entry(key(cr, "INSITU", dest, "B")).or_insert((g, "default:grid supply factor"));
            }
        }
    }
    let def = [0.0f32, 1.3, 0.3];
    m.entry(key("RED1", "RED", "SUMINISTRO", "A")).or_insert((def, "default"));
    m.entry(key("RED2", "RED", "SUMINISTRO", "A")).or_insert((def, "default"));
    Expect::Ok(m)
}

fn first_match(lines: &[(Key, [f32; 3])], k: &Key) -> Option<[f32; 3]> {
    lines.iter().find(|(kk, _)| kk == k).map(|(_, f)| *f)
}

fn close3(a: [f32; 3], b: [f32; 3]) -> bool {
    (0..3).all(|i| a[i] == b[i] || (a[i] - b[i]).abs() <= 1e-6 * a[i].abs().max(b[i].abs()))
}

pub fn check_set(ctx: &Ctx, fac: &FacChoice, input: &[(Key, [f32; 3])], r: &mut Rng, t: &mut Tally) {
    let _ = ctx;
    let (red1, red2) = match fac {
        FacChoice::Loc { red1, red2, .. } | FacChoice::User { red1, red2, .. } => (*red1, *red2),
    };
    let wit = |extra: Value| json!({"factors": fac, "observed": extra});
    // history: the same source was prepared a moment ago, in this process, with user RED values that differ only beyond
    // the third decimal (what a cache keyed by the printed form of the values would confuse)
    if (red1.is_some() || red2.is_some()) && r.chance(1, 3) {
        let bump = |x: Option<[f32; 3]>| x.map(|v| [v[0] + 0.0002, v[1] + 0.0003, v[2] + 0.0001]);
        let mut twin = fac.clone();
        match &mut twin {
            FacChoice::Loc { red1, red2, .. } | FacChoice::User { red1, red2, .. } => {
                *red1 = bump(*red1);
                *red2 = bump(*red2);
            }
        }
        let _ = safe::guard(|| twin.build());
        t.count("history.near_twin_user_values_prepared_first");
    }
    t.evaluations += 1;
    let got = safe::guard(|| fac.build());
    let want = expect_prepared(input, red1, red2);
    let prepared = match (got, &want) {
        (Out::Panic(m), _) => {
            t.violation("evaluation_panicked.factors", format!("preparing the factor set panicked: {m}"), || wit(json!({})));
            return;
        }
        (Out::Err(_, _), Expect::Reject(_)) => {
            t.count("unusable_set_rejected");
            return;
        }
        (Out::Ok(_), Expect::Reject(cr)) => {
            t.violation("C07.unusable_set_accepted", format!("carrier {cr} has no grid supply factor (RED, SUMINISTRO, A) but the set is accepted"), || wit(json!({"carrier": cr})));
            return;
        }
        (Out::Err(v, m), Expect::Ok(_)) => {
            t.violation("C07.usable_set_rejected", format!("a set in which every carrier it mentions has its grid supply factor is rejected: {v}: {m}"), || wit(json!({})));
            return;
        }
        (Out::Ok(f), Expect::Ok(_)) => f,
    };
    let Expect::Ok(want) = want else { return };
    let got_lines = lines_of(&prepared);
    if !want.contains_key(&key("ELECTRICIDAD", "RED", "SUMINISTRO", "A")) {
        t.count("sets_without_electricity_accepted");
    }
    // (a) (c) (d): every expected key is there with the expected value
    for (k, (f, origin)) in &want {
        t.count(&format!("origin.{}", origin.split(':').next().unwrap_or("")));
        match first_match(&got_lines, k) {
            Some(g) if close3(g, *f) => {}
            Some(g) => {
                let name = match *origin {
                    "file" => "C07.user_factor_changed",
                    "user" => "C07.user_red_not_applied",
                    "method" => "C07.method_factor_not_forced",
                    "default" => "C07.red_default",
                    _ => "C07.export_default_wrong",
                };
                t.violation(name, format!("{:?}: prepared set has {:?}, expected {:?} ({origin})", k, g, f), || wit(json!({"key": format!("{:?}", k), "got": g, "expected": f, "origin": origin})));
            }
            None => t.violation("C07.factor_missing", format!("{:?} ({origin}) is missing from the prepared set", k), || wit(json!({"key": format!("{:?}", k)}))),
        }
    }
    // nothing else may be added
    for (k, f) in &got_lines {
        if !want.contains_key(k) {
            t.violation("C07.unexpected_factor_added", format!("{:?} = {:?} was added although neither the file nor the method asks for it", k, f), || wit(json!({"key": format!("{:?}", k)})));
        }
    }
    // (e) preparing a prepared set changes nothing
    match safe::guard(|| prepared.clone().normalize(&cte::CTE_USERWF)) {
        Out::Ok(p2) => {
            if p2.to_string() != prepared.to_string() || lines_of(&p2) != got_lines {
                t.violation("C07.not_idempotent", "normalising an already prepared set changes it".into(), || wit(json!({"first": prepared.to_string(), "second": p2.to_string()})));
            }
            t.count("idempotence_checks");
        }
        Out::Err(v, m) => t.violation("C07.not_idempotent", format!("normalising a prepared set fails: {v} {m}"), || wit(json!({}))),
        Out::Panic(m) => t.violation("evaluation_panicked.factors", format!("normalize panicked: {m}"), || wit(json!({}))),
    }
    // the written form of a prepared set, prepared again (without user values), is the same set
    match safe::guard(|| cte::wfactors_from_str(&prepared.to_string(), cteepbd::UserWF { red1: None, red2: None }, cte::CTE_USERWF)) {
        Out::Ok(p3) => {
            let l3 = lines_of(&p3);
            let same = l3.len() == got_lines.len() && l3.iter().zip(got_lines.iter()).all(|(a, b)| a.0 == b.0 && (0..3).all(|i| (a.1[i] - b.1[i]).abs() <= 5.1e-4));
            if !same {
                t.violation("C07.not_idempotent", "writing a prepared set and preparing it again gives another set".into(), || wit(json!({"first": prepared.to_string(), "second": p3.to_string()})));
            }
        }
        Out::Err(v, m) => t.violation("C07.not_idempotent", format!("the written form of a prepared set is rejected: {v} {m}"), || wit(json!({}))),
        Out::Panic(m) => t.violation("evaluation_panicked.factors", format!("wfactors_from_str panicked: {m}"), || wit(json!({}))),
    }
    // (b) completeness by execution: any building over the carriers of the set evaluates
    let set_carriers: Vec<String> = {
        let mut v: Vec<String> = got_lines.iter().map(|(k, _)| k.0.clone()).collect();
        v.sort();
        v.dedup();
        v
    };
    let mut o = GenOpts::default();
    o.cogen = if r.chance(1, 2) { Tri::Always } else { Tri::Maybe };
    o.pv = Tri::Always;
    o.nepb = Tri::Always;
    o.amb = Tri::Always;
    let mut spec = gen::building(r, &o);
    spec.lines.retain(|l| match l.carrier() {
        Some(c) => set_carriers.iter().any(|x| x == c),
        None => true,
    });
    let case = Case { spec, fac: fac.clone(), k: crate::case::gen_k(r), area: 100.0, lm: r.chance(1, 3), sub_seed: 0 };
    if let Out::Ok(comps) = safe::parse_components(&case.spec.to_text()) {
        t.evaluations += 1;
        match safe::eval(&comps, &prepared, case.k, case.area, case.lm) {
            Out::Ok(ep) => {
                t.count("buildings_evaluated_with_prepared_set");
                let fl = flat(&ep);
                if get(&fl, "balance.exp.nepus") > 0.0 {
                    t.count("buildings_exporting_to_nepb");
                }
                if get(&fl, "balance.exp.grid") > 0.0 {
                    t.count("buildings_exporting_to_grid");
                }
                if get(&fl, "balance_cr.EAMBIENTE.exp.an") + get(&fl, "balance_cr.TERMOSOLAR.exp.an") > 0.0 {
                    t.count("buildings_exporting_ambient_or_solar");
                }
            }
            Out::Err(v, m) if v == "MissingFactor" => {
                t.violation("C07.missing_factor_for_building_over_set_carriers", format!("a building using only carriers of the prepared set fails with {m}"), || {
                    let mut w = case.witness();
                    w["factors"] = json!(fac);
                    w
                });
            }
            Out::Err(_, _) => t.count("building_rejected_for_other_reason"),
            Out::Panic(m) => t.violation("evaluation_panicked.energy_performance", format!("energy_performance panicked: {m}"), || case.witness()),
        }
    }
    let given_export = input.iter().filter(|(k, _)| k.2 != "SUMINISTRO").count();
    let defaults = want.values().filter(|(_, o)| o.starts_with("default:")).count();
    if given_export >= 1 && defaults >= 1 {
        t.nontrivial(fnv(format!("{:?}", fac).as_bytes()));
        t.sample(|| json!({"factors": fac, "export_factors_given": given_export, "export_factors_defaulted": defaults, "prepared": prepared.to_string()}));
    }
}

pub fn run(ctx: &Ctx) -> Report {
    let total = ctx.cases(15_000, 600_000);
    let tally = run_sharded(ctx, total, |idx, r, t| {
        let red1 = gen_user_red(r);
        let red2 = gen_user_red(r);
        if idx % 10 == 0 {
            // the four regulatory locations x user RED1/RED2 given or not
            let loc = LOCS[(idx / 10 % 4) as usize];
            let fac = FacChoice::Loc { loc: loc.to_string(), red1, red2 };
            let input = lines_of(&cte::CTE_LOCWF_RITE2014[loc]);
            t.count(&format!("location.{loc}"));
            check_set(ctx, &fac, &input, r, t);
            return;
        }
        let o = FacOpts { all_carriers: !r.chance(1, 3), cogen_lines: true, duplicates: true, zeros: r.chance(1, 4) };
        let mut text = gen_user_file(r, &o);
        match r.below(12) {
            0 => {
                // unusable: drop the grid supply factor of one carrier that has other lines
                let cr = *r.pick(&["ELECTRICIDAD", "EAMBIENTE", "GASNATURAL", "BIOMASA", "RED1", "TERMOSOLAR"]);
                let kept: Vec<&str> = text.lines().filter(|l| !(l.trim_start().starts_with(cr) && l.contains("RED") && l.contains("SUMINISTRO"))).collect();
                text = kept.join("\n");
                match r.below(4) {
                    0 => text.push_str(&format!("\n{cr}, INSITU, A_RED, A, 0.5, 0.5, 0.1\n")),
                    // a supply factor of another source does not make the carrier usable
                    1 => text.push_str(&format!("\n{cr}, INSITU, SUMINISTRO, A, 0.5, 0.5, 0.1\n")),
                    2 => text.push_str(&format!("\n{cr}, COGEN, SUMINISTRO, A, 0.4, 0.6, 0.1\n{cr}, RED, SUMINISTRO, B, 0.4, 0.6, 0.1\n")),
                    _ => {}
                }
                t.count("generated.grid_factor_removed");
            }
            1 => {
                // RED1 / RED2 only present through export-like lines
                text.push_str("\nRED2, INSITU, A_RED, B, 0.1, 0.2, 0.3\n");
            }
            2 => {
                // a set that does not mention electricity at all (buildings without electricity): usable
                let kept: Vec<&str> = text.lines().filter(|l| !l.trim_start().starts_with("ELECTRICIDAD")).collect();
                text = kept.join("\n");
                t.count("generated.set_without_electricity");
            }
            _ => {}
        }
        let input = parse_lines(&text);
        let fac = FacChoice::User { text, red1, red2 };
        check_set(ctx, &fac, &input, r, t);
    });
    let quotas = vec![
        ("unusable_set_rejected".to_string(), tally.get("unusable_set_rejected"), 100),
        ("sets_without_electricity_accepted".to_string(), tally.get("sets_without_electricity_accepted"), 100),
        ("buildings_evaluated_with_prepared_set".to_string(), tally.get("buildings_evaluated_with_prepared_set"), 2000),
        ("buildings_exporting_to_nepb".to_string(), tally.get("buildings_exporting_to_nepb"), 300),
        ("buildings_exporting_ambient_or_solar".to_string(), tally.get("buildings_exporting_ambient_or_solar"), 300),
        ("origin.user".to_string(), tally.get("origin.user"), 300),
        ("origin.default".to_string(), tally.get("origin.default"), 1000),
        ("idempotence_checks".to_string(), tally.get("idempotence_checks"), 1000),
    ];
    Report {
        tally,
        rule: "factor sets: the four regulatory locations and generated user files (any subset of carriers, any subset of on-site export factors, optional COGEN lines, pairwise distinct values, duplicates, shuffled order, comments, files with a grid factor removed), each with user RED1 / RED2 given or not; the prepared set is compared key by key with the set the property text prescribes (user values kept, method-fixed ones forced, defaults from the right source, RED1/RED2 precedence, nothing else added), prepared again (idempotence), and used to evaluate a generated building restricted to its carriers that exercises every export path; non-trivial = the file gives at least one export factor and leaves at least one to be defaulted; distinct = distinct (file text, user RED1/RED2)".into(),
        assumptions: vec!["a set that does not mention ELECTRICIDAD has no carrier without grid factor: it must be accepted (usable for buildings without electricity)".into(), "duplicate keys: the first line is the one in force (Factors::find is first-match)".into()],
        quotas,
    }
}

pub fn replay(ctx: &Ctx, _monitor: &str, w: &Value) -> Option<Report> {
    let fac: FacChoice = serde_json::from_value(w["factors"].clone()).or_else(|_| serde_json::from_value(w["case"]["fac"].clone())).ok()?;
    let input = match &fac {
        FacChoice::Loc { loc, .. } => lines_of(cte::CTE_LOCWF_RITE2014.get(loc.as_str())?),
        FacChoice::User { text, .. } => parse_lines(text),
    };
    let mut t = Tally::default();
    let mut r = Rng::new(ctx.seed);
    check_set(ctx, &fac, &input, &mut r, &mut t);
    Some(Report { tally: t, rule: "replay".into(), assumptions: vec![], quotas: vec![] })
}
