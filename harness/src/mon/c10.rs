//! C10 — results depend on what is declared, not on file layout or on the run.
//!
//! (a) rewritings of the file, (b) repeated parse + evaluation in fresh threads (every evaluation
//! iterates its hash maps in another order; the orders actually seen are recorded), (c) the real
//! binary run twice on the same file. The thorough tier adds Miri-seeded hash orders (tools/extra_C10.sh).

use super::common::*;
use crate::case::{gen_case, Case, FacChoice};
use crate::cli;
use crate::flat::Flat;
use crate::gen::{Class, GenOpts, Tri};
use crate::refmodel::{RefOut, Tol};
use crate::rng::Rng;
use crate::safe::{self, Out};
use crate::spec::{Line, Rewrite};
use crate::tally::Tally;
use crate::{run_sharded, Ctx, Report};
use cteepbd::types::{Energy, EnergyPerformance};
use cteepbd::Factors;
use serde_json::{json, Value};

const PROP: &str = "C10";

/// outcome of parse + evaluate of a text, for class comparison
/// the DHW indicator of a result: Ok(value) / "err" / "panic"
fn dhw(ep: &EnergyPerformance) -> Result<f64, String> {
    match safe::guard(|| cteepbd::cte::fraccion_renovable_acs_nrb(ep)) {
        Out::Ok(v) => Ok(v as f64),
        // the message too: `incorpora_demanda_renovable_acs_nrb` stores it in the result (`misc.error_acs`, saved in the
        // JSON and printed in the report), so between repetitions of the same text it must not vary
        Out::Err(v, m) => Err(format!("err:{v}|{m}")),
        Out::Panic(m) => Err(format!("panic: {m}")),
    }
}

fn dhw_same(a: &Result<f64, String>, b: &Result<f64, String>, band: f64) -> bool {
    match (a, b) {
        (Ok(x), Ok(y)) => (x - y).abs() <= 2e-5 * x.abs().max(1.0) + band || (x.is_nan() && y.is_nan()),
        (Err(x), Err(y)) => x == y,
        _ => false,
    }
}

/// between a file and a rewriting of it (ids may be renumbered, lines reordered) only the kind of error is pinned
fn dhw_same_class(a: &Result<f64, String>, b: &Result<f64, String>, band: f64) -> bool {
    let class = |r: &Result<f64, String>| r.clone().map_err(|e| e.split('|').next().unwrap_or("").to_string());
    dhw_same(&class(a), &class(b), band)
}

fn run_text(text: &str, fac: &Factors, case: &Case) -> (String, Option<EnergyPerformance>) {
    match safe::parse_components(text) {
        Out::Ok(c) => match safe::eval(&c, fac, case.k, case.area, case.lm) {
            Out::Ok(ep) => ("ok".into(), Some(ep)),
            other => (format!("eval:{}", other.class()), None),
        },
        other => (format!("parse:{}", other.class()), None),
    }
}

fn differences(base: &Flat, other: &Flat, rf: &RefOut, tol: &Tol) -> Vec<String> {
    let mut out = vec![];
    let mut keys: std::collections::BTreeSet<&String> = base.keys().collect();
    keys.extend(other.keys());
    for p in keys {
        match (value_or_zero(base, p), value_or_zero(other, p)) {
            (Some(v), Some(v2)) => {
                let band = tol.atol + tol.rtol * scale_of(p, rf, v.abs().max(v2.abs()));
                if !((v - v2).abs() <= band) && !(v.is_nan() && v2.is_nan()) {
                    out.push(format!("{p}: {v} vs {v2} (band {band:.3e})"));
                }
            }
            (Some(v), None) => {
                if v != 0.0 {
                    out.push(format!("{p}: {v} vs missing"));
                }
            }
            (None, Some(v2)) => {
                if v2 != 0.0 {
                    out.push(format!("{p}: missing vs {v2}"));
                }
            }
            (None, None) => {}
        }
    }
    out
}

/// the order in which the regenerated auxiliary components and the carriers came out (evidence)
fn observed_order(ep: &EnergyPerformance) -> String {
    let carriers: Vec<String> = ep.balance_cr.keys().map(|c| c.to_string()).collect();
    let aux: Vec<String> = ep
        .components
        .data
        .iter()
        .filter_map(|c| match c {
            Energy::Aux(a) if a.comment.starts_with("Reasignación") => Some(format!("{}:{}", a.id, a.service)),
            _ => None,
        })
        .collect();
    format!("{}|{}", carriers.join(","), aux.join(","))
}

pub fn gen_rewrite(r: &mut Rng) -> Rewrite {
    let mut rw = Rewrite { seed: r.next(), ..Default::default() };
    // one to four rewritings at a time
    let k = 1 + r.usize(4);
    for _ in 0..k {
        match r.below(9) {
            0 => rw.shuffle = true,
            1 => rw.split = true,
            2 => rw.renumber = true,
            3 => rw.comments = true,
            4 => rw.blank_lines = true,
            5 => rw.header = true,
            6 => rw.bom = true,
            7 => rw.padding = true,
            _ => rw.omit_id0 = true,
        }
    }
    rw
}

pub fn check_case(ctx: &Ctx, case: &Case, rw: &Rewrite, repeats: usize, with_cli: bool, t: &mut Tally) {
    let fac = match safe::guard(|| case.fac.build()) {
        Out::Ok(f) => f,
        _ => {
            t.count("input.factors_rejected");
            return;
        }
    };
    let text = case.spec.to_text();
    let wit = |extra: Value| {
        let mut w = case.witness();
        w["rewrite"] = json!(rw);
        w["repeats"] = json!(repeats);
        w["observed"] = extra;
        w
    };
    // ---- history: what this thread evaluated just before must not leak into the evaluation (a cache keyed by part of
    // the inputs, an accumulator left behind by an evaluation that failed half-way). One case in three is preceded, in this
    // very thread, by (i) the same building with a factor set that differs in one single number and / or (ii) the same
    // building with a factor set simplified for *another* building, which the library is right to refuse.
    let hist = crate::spec::fnv(text.as_bytes()) % 3 == 0;
    if hist {
        let mut hr = crate::rng::Rng::new(rw.seed ^ 0x5EED);
        if let Out::Ok(c) = safe::parse_components(&text) {
            if hr.chance(2, 3) && !fac.wdata.is_empty() {
                let mut f2 = fac.clone();
                let i = hr.usize(f2.wdata.len());
                match hr.below(3) {
                    0 => f2.wdata[i].ren += 0.125,
                    1 => f2.wdata[i].nren += 0.125,
                    _ => f2.wdata[i].co2 += 0.125,
                }
                let _ = safe::eval(&c, &f2, case.k, case.area, case.lm);
                t.count("history.sibling_factor_set_evaluated_first");
            }
            if hr.chance(1, 2) {
                // a sibling building: the values of two services of one carrier swapped (same carrier totals at every step,
                // another split between the services)
                if let Some(sib) = case.spec.sibling_with_swapped_services() {
                    if let Out::Ok(cs) = safe::parse_components(&sib.to_text()) {
                        let _ = safe::eval(&cs, &fac, case.k, case.area, case.lm);
                        t.count("history.sibling_building_evaluated_first");
                    }
                }
            }
            if hr.chance(1, 2) {
                // "another building": a one-line gas building, or this building without anything it produces (the
                // simplified set then keeps every grid factor but lacks the on-site and export factors, so the refusal comes
                // in the middle of the evaluation, after some carriers have been balanced)
                let other_text = if hr.chance(1, 3) {
                    "0, CONSUMO, CAL, GASNATURAL, 1\n".to_string()
                } else {
                    case.spec.lines.iter().filter(|l| !matches!(l, Line::Prod { .. }) && !matches!(l.carrier(), Some("EAMBIENTE") | Some("TERMOSOLAR"))).map(|l| l.render(true)).collect::<Vec<_>>().join("\n") + "\n"
                };
                if let Out::Ok(other) = safe::parse_components(&other_text) {
                    let f3 = fac.clone().strip(&other);
                    match safe::eval(&c, &f3, case.k, case.area, case.lm) {
                        Out::Err(..) => t.count("history.refused_evaluation_first"),
                        _ => t.count("history.foreign_simplified_set_accepted"),
                    }
                }
            }
        }
    }
    t.evaluations += 1;
    let (class0, ep0) = run_text(&text, &fac, case);
    if class0.contains("panic") {
        t.violation("evaluation_panicked", format!("parse + evaluation of a generated file panicked ({class0})"), || wit(json!({})));
        return;
    }
    let tol = Tol::for_steps(case.spec.n);
    let base = ep0.as_ref().map(flat);
    let rf = match (&ep0, safe::parse_components(&text)) {
        (Some(_), Out::Ok(c)) => ref_eval_parsed(&c, &fac, case.k, case.area, case.lm).unwrap_or_default(),
        _ => RefOut::new(),
    };
    // ---- (b) repetition in fresh threads
    let mut orders = std::collections::BTreeSet::new();
    if let Some(ep) = &ep0 {
        orders.insert(observed_order(ep));
    }
    let dhw0 = ep0.as_ref().map(dhw);
    let dhw_band = dhw_noise_band(&case.spec).1;
    for i in 0..repeats {
        t.evaluations += 1;
        let (class, ep) = safe::fresh_thread(|| run_text(&text, &fac, case));
        if class != class0 {
            t.violation("C10.outcome_differs_between_runs", format!("the same file gives `{class0}` on one evaluation and `{class}` on repetition {i}"), || wit(json!({"first": class0, "repeat": class})));
            break;
        }
        if let (Some(b), Some(ep)) = (&base, &ep) {
            orders.insert(observed_order(ep));
            if let Some(d0) = &dhw0 {
                let d1 = dhw(ep);
                if !dhw_same(d0, &d1, dhw_band) {
                    t.violation("C10.result_differs_between_runs", format!("the renewable DHW fraction of the same file is {:?} on one evaluation and {:?} on repetition {i}", d0, d1), || wit(json!({"first": format!("{:?}", d0), "repeat": format!("{:?}", d1)})));
                    break;
                }
                t.count("dhw_indicator_repetitions_compared");
            }
            let d = differences(b, &flat(ep), &rf, &Tol { atol: 1e-7, rtol: 2e-6 });
            if !d.is_empty() {
                t.violation("C10.result_differs_between_runs", format!("repeating the evaluation of the same file changes {} field(s): {}", d.len(), d.iter().take(3).cloned().collect::<Vec<_>>().join("; ")), || wit(json!({"differences": d.len()})));
                break;
            }
        }
        t.count("repetitions_compared");
    }
    if orders.len() >= 2 {
        t.count("cases_with_two_or_more_distinct_iteration_orders");
    }
    t.max("distinct_iteration_orders_seen_in_one_case", orders.len() as f64);
    for o in orders.iter().take(2) {
        t.set_insert("iteration_orders", o.clone());
    }
    // ---- (a) rewriting of the file
    let s2 = case.spec.rewritten(rw);
    let text2 = s2.render_rewritten(rw);
    t.evaluations += 1;
    let (class2, ep2) = run_text(&text2, &fac, case);
    for n in rw.names() {
        t.count(&format!("rewriting.{n}"));
    }
    if class2 != class0 {
        t.violation(
            &format!("C10.outcome_changes_with_layout.{}", rw.names().join("+")),
            format!("the file gives `{class0}`, its rewriting ({}) gives `{class2}`", rw.names().join("+")),
            || wit(json!({"rewritten_text": text2})),
        );
    } else if let (Some(b), Some(ep2)) = (&base, &ep2) {
        let d = differences(b, &flat(ep2), &rf, &tol);
        if !d.is_empty() {
            t.violation(
                &format!("C10.result_changes_with_layout.{}", rw.names().join("+")),
                format!("rewriting the file ({}) changes {} field(s): {}", rw.names().join("+"), d.len(), d.iter().take(3).cloned().collect::<Vec<_>>().join("; ")),
                || wit(json!({"rewritten_text": text2})),
            );
        }
        if let Some(d0) = &dhw0 {
            let d2 = dhw(ep2);
            // splitting lines changes summation order inside the indicator as well
            if !dhw_same_class(d0, &d2, dhw_band + 2e-5) {
                t.violation(
                    &format!("C10.result_changes_with_layout.{}", rw.names().join("+")),
                    format!("rewriting the file ({}) changes the renewable DHW fraction from {:?} to {:?}", rw.names().join("+"), d0, d2),
                    || wit(json!({"rewritten_text": text2})),
                );
            }
        }
        // metadata and demands are declared data too
        let m1: Vec<(String, String)> = ep0.as_ref().unwrap().components.meta.iter().map(|m| (m.key.clone(), m.value.clone())).collect();
        let m2: Vec<(String, String)> = ep2.components.meta.iter().map(|m| (m.key.clone(), m.value.clone())).collect();
        if m1 != m2 {
            t.violation("C10.metadata_changes_with_layout", format!("metadata {:?} became {:?}", m1, m2), || wit(json!({"rewritten_text": text2})));
        }
        t.count("rewritings_compared");
    } else {
        t.count("rewritings_both_rejected");
    }
    // ---- (c) the same file through the binary, twice
    if with_cli {
        if let Some(bin) = &ctx.cli_debug {
            cli_twice(bin, case, &text2, &rf, t);
        }
    }
    if ep0.is_some() && (orders.len() >= 2 || !rw.names().is_empty()) && carriers_of(base.as_ref().unwrap()).len() >= 2 {
        t.nontrivial(case.hash() ^ rw.seed);
        t.sample(|| {
            let mut s = short_case(case);
            s["rewriting"] = json!(rw.names());
            s["rewritten_text"] = json!(text2);
            s["distinct_iteration_orders"] = json!(orders.len());
            s
        });
    }
}

fn cli_twice(bin: &std::path::Path, case: &Case, text: &str, rf: &RefOut, t: &mut Tally) {
    let dir = cli::scratch_dir("c10");
    let cpath = dir.join("c.csv");
    let _ = std::fs::write(&cpath, text);
    let mut args: Vec<String> = vec!["-c".into(), cpath.display().to_string(), "-a".into(), format!("{}", case.area), "-k".into(), format!("{}", case.k)];
    match &case.fac {
        FacChoice::Loc { loc, .. } => {
            args.push("-l".into());
            args.push(loc.clone());
        }
        FacChoice::User { text, .. } => {
            let fpath = dir.join("f.csv");
            let _ = std::fs::write(&fpath, text);
            args.push("-f".into());
            args.push(fpath.display().to_string());
        }
    }
    if case.lm {
        args.push("--load_matching".into());
    }
    let mut outs = vec![];
    for i in 0..2 {
        let mut a = args.clone();
        let j = dir.join(format!("out{i}.json"));
        a.push("--json".into());
        a.push(j.display().to_string());
        let r = cli::run(bin, &a, 20_000);
        t.evaluations += 1;
        let js = std::fs::read_to_string(&j).ok().and_then(|s| serde_json::from_str::<Value>(&s).ok());
        outs.push((r, js));
    }
    let wit = || {
        let mut w = case.witness();
        w["file_text"] = json!(text);
        w["argv"] = json!(args);
        w
    };
    let (r1, j1) = &outs[0];
    let (r2, j2) = &outs[1];
    if r1.timed_out || r2.timed_out {
        if r1.stderr.contains("panicked at") || r2.stderr.contains("panicked at") {
            t.violation("C10.process_outcome_differs", "cteepbd panicked on a generated file".into(), wit);
        } else {
            t.count("cli_timeouts_inconclusive");
        }
    } else if r1.code != r2.code || r1.signal != r2.signal {
        t.violation("C10.process_outcome_differs", format!("two runs of cteepbd on the same file end differently: {:?}/{:?} vs {:?}/{:?}", r1.code, r1.signal, r2.code, r2.signal), wit);
    } else if r1.code == Some(0) {
        let rep = |s: &str| -> String { s.split("** Eficiencia energética").nth(1).unwrap_or("").to_string() };
        if !cli::reports_equal(&comparable_report(rep(&r1.stdout).trim(), rf), &comparable_report(rep(&r2.stdout).trim(), rf), report_slack(rf)) {
            t.violation("C10.process_report_differs", "two runs of cteepbd on the same file print different reports".into(), || {
                let mut w = wit();
                w["first"] = json!(rep(&r1.stdout));
                w["second"] = json!(rep(&r2.stdout));
                w
            });
        }
        match (j1, j2) {
            (Some(a), Some(b)) => {
                if let Some(d) = json_diff(a, b, "", &|p| json_band(rf, p)) {
                    t.violation("C10.process_json_differs", format!("two runs of cteepbd on the same file write different JSON results: {d}"), wit);
                }
            }
            _ => t.violation("C10.process_json_differs", "JSON output missing or unreadable".into(), wit),
        }
        t.count("process_pairs_compared");
    } else {
        t.count("process_pairs_both_rejected");
    }
    let _ = std::fs::remove_dir_all(&dir);
}

/// first difference between two JSON results: object key order ignored, arrays of components compared as
/// multisets, numbers within rounding of the 3-decimal serialisation
pub fn json_diff(a: &Value, b: &Value, path: &str, band: &dyn Fn(&str) -> f64) -> Option<String> {
    match (a, b) {
        (Value::Number(x), Value::Number(y)) => {
            let (x, y) = (x.as_f64().unwrap_or(f64::NAN), y.as_f64().unwrap_or(f64::NAN));
            if (x - y).abs() <= 2.1e-3 + 3e-6 * x.abs().max(y.abs()) + band(path) || (x.is_nan() && y.is_nan()) {
                None
            } else {
                Some(format!("{path}: {x} vs {y}"))
            }
        }
        (Value::Object(x), Value::Object(y)) => {
            // by-carrier maps of the building totals list a carrier only when its amount is non-zero,
            // which for a rounding residue can differ between two evaluations: a missing key means 0
            let lenient = path.ends_with(".by_cr") || path.ends_with(".grid_by_cr") || path.ends_with(".epus_by_cr");
            let zero = Value::from(0.0);
            for (k, v) in x {
                match y.get(k) {
                    Some(w) => {
                        if let Some(d) = json_diff(v, w, &format!("{path}.{k}"), band) {
                            return Some(d);
                        }
                    }
                    None if lenient && v.is_number() => {
                        if let Some(d) = json_diff(v, &zero, &format!("{path}.{k}"), band) {
                            return Some(d);
                        }
                    }
                    None => return Some(format!("{path}.{k}: missing in second")),
                }
            }
            for (k, w) in y {
                if !x.contains_key(k) {
                    if lenient && w.is_number() {
                        if let Some(d) = json_diff(&zero, w, &format!("{path}.{k}"), band) {
                            return Some(d);
                        }
                    } else {
                        return Some(format!("{path}.{k}: missing in first"));
                    }
                }
            }
            None
        }
        (Value::Array(x), Value::Array(y)) => {
            if x.len() != y.len() {
                return Some(format!("{path}: array length {} vs {}", x.len(), y.len()));
            }
            if path.ends_with(".data") {
                // component lists: the order of regenerated auxiliary lines is not a result
                let mut used = vec![false; y.len()];
                'outer: for (i, v) in x.iter().enumerate() {
                    for (j, w) in y.iter().enumerate() {
                        if !used[j] && json_diff(v, w, "", &|_| 0.0).is_none() {
                            used[j] = true;
                            continue 'outer;
                        }
                    }
                    return Some(format!("{path}[{i}]: component has no counterpart"));
                }
                return None;
            }
            for (i, (v, w)) in x.iter().zip(y.iter()).enumerate() {
                if let Some(d) = json_diff(v, w, &format!("{path}[{i}]"), band) {
                    return Some(d);
                }
            }
            None
        }
        (Value::String(x), Value::String(y)) => {
            // numbers stored as text (misc indicators): compare as numbers at their printed precision
            match (x.parse::<f64>(), y.parse::<f64>()) {
                (Ok(p), Ok(q)) => {
                    if (p - q).abs() <= 1.1e-3 + band(path) || (p.is_nan() && q.is_nan()) {
                        None
                    } else {
                        Some(format!("{path}: {x} vs {y}"))
                    }
                }
                _ if x == y => None,
                _ => Some(format!("{path}: {x:?} vs {y:?}")),
            }
        }
        (x, y) => {
            if x == y {
                None
            } else {
                Some(format!("{path}: {x} vs {y}"))
            }
        }
    }
}

pub fn run(ctx: &Ctx) -> Report {
    let total = ctx.cases(6_000, 60_000);
    let repeats = if ctx.thorough() { 16 } else { 8 };
    let cli_every = if ctx.thorough() { 100 } else { 60 };
    let tally = run_sharded(ctx, total, |idx, r, t| {
        let mut o = GenOpts::default();
        o.hostile_comments = r.chance(1, 3);
        o.meta = true;
        o.aux_hostile = r.chance(1, 4);
        if r.chance(1, 2) {
            o.aux = Tri::Always;
            o.aux_multi = true;
        }
        if r.chance(1, 2) {
            o.class = Some(Class::Dyadic);
        }
        let mut case = gen_case(r, &o, 25);
        if r.chance(1, 20) {
            // several biomass DHW systems without declared output: the indicator is an error whose text must not
            // depend on which system a hash set yields first (either kind of biomass)
            crate::gen::plant_undeclared_biomass_dhw(&mut case.spec, r);
            t.count("cases_with_undeclared_biomass_dhw_output");
        }
        if r.chance(1, 100) {
            crate::gen::plant_many_aux_systems(&mut case.spec, r);
            t.count("cases_with_more_than_35_systems_with_auxiliaries");
        }
        let rw = gen_rewrite(r);
        check_case(ctx, &case, &rw, repeats, idx % cli_every == 0, t);
    });
    let mut quotas = vec![
        ("cases_with_two_or_more_distinct_iteration_orders".to_string(), tally.get("cases_with_two_or_more_distinct_iteration_orders"), 500),
        ("rewritings_compared".to_string(), tally.get("rewritings_compared"), 2000),
    ];
    for n in ["shuffle", "split", "renumber", "comments", "blank_lines", "header", "bom", "padding", "omit_id0"] {
        quotas.push((format!("rewriting.{n}"), tally.get(&format!("rewriting.{n}")), 200));
    }
    if ctx.cli_debug.is_some() {
        quotas.push(("process_pairs_compared".to_string(), tally.get("process_pairs_compared"), 30));
    }
    Report {
        tally,
        rule: "each generated components file (multi-system, auxiliaries on several systems, metadata, hostile comments) is (b) parsed and evaluated again 8 (thorough: 16) times in fresh threads - the carrier and regenerated-auxiliary orders actually produced are recorded -, (a) rewritten by 1-4 of {line shuffle, splitting lines into 2-3 with the same tags, consistent id renumbering incl. negative ids, comment lines and trailing comments, blank lines, header line, BOM, padding / tabs / CRLF, id 0 omitted} and evaluated again, and (c) every ~60th file is run twice through the real binary (plain report and JSON compared); non-trivial = the file evaluates, has at least two carriers, and either two distinct iteration orders were seen or a rewriting was applied; distinct = distinct (case, rewriting seed); second session: one base evaluation in three is preceded in the same thread by the same building with a factor set differing in one number and / or by an evaluation refused half-way (history independence); metadata lines move with the shuffle; a BOM may be followed by a padded comment / metadata / header line; SALIDA lines are also split into parts of opposite sign; the DHW indicator's error text is compared between repetitions".into(),
        assumptions: vec![
            "rewritings change summation order: comparison within atol 1e-4 + rtol * cancellation scale; repetitions of the same text within 2e-6 of the scale".into(),
            "SALIDA and DEMANDA lines have no id-less form in the documented format and are not rewritten that way".into(),
        ],
        quotas,
    }
}

pub fn replay(ctx: &Ctx, _monitor: &str, w: &Value) -> Option<Report> {
    let case: Case = serde_json::from_value(w["case"].clone()).ok()?;
    let rw: Rewrite = serde_json::from_value(w["rewrite"].clone()).unwrap_or_default();
    // order-dependent witnesses: many repetitions
    let mut t = Tally::default();
    check_case(ctx, &case, &rw, 64, ctx.cli_debug.is_some(), &mut t);
    Some(Report { tally: t, rule: "replay".into(), assumptions: vec![], quotas: vec![] })
}

/// `vmon C10-miri --miri-outputs DIR`: compare the lines printed by the Miri driver under each seed
pub fn run_miri(ctx: &Ctx) -> Report {
    let mut t = Tally::default();
    let dir = ctx.miri_outputs.clone().unwrap_or_else(|| ctx.verif.join(".build").join("miri-out"));
    let mut outputs: Vec<(u64, Vec<String>)> = vec![];
    if let Ok(rd) = std::fs::read_dir(&dir) {
        for e in rd.filter_map(|e| e.ok()) {
            let name = e.file_name().to_string_lossy().to_string();
            if let Some(seed) = name.strip_prefix("seed_").and_then(|x| x.strip_suffix(".txt")).and_then(|x| x.parse::<u64>().ok()) {
                let txt = std::fs::read_to_string(e.path()).unwrap_or_default();
                let lines: Vec<String> = txt.lines().filter(|l| l.starts_with("case ")).map(|l| l.to_string()).collect();
                if lines.is_empty() {
                    let err = std::fs::read_to_string(dir.join(format!("seed_{seed}.err"))).unwrap_or_default();
                    t.harness_error(format!("Miri seed {seed} produced no output: {}", err.lines().rev().take(3).collect::<Vec<_>>().join(" | ")));
                } else {
                    outputs.push((seed, lines));
                }
            }
        }
    }
    outputs.sort();
    if outputs.len() < 2 {
        t.harness_error(format!("fewer than two Miri outputs in {}", dir.display()));
        return Report { tally: t, rule: "miri".into(), assumptions: vec![], quotas: vec![] };
    }
    // drop the fields that legitimately differ (the orders themselves) before comparing
    let strip = |l: &str| -> String { l.split(' ').filter(|f| !f.starts_with("order=") && !f.starts_with("aux_order=")).collect::<Vec<_>>().join(" ") };
    let field = |l: &str, name: &str| -> String { l.split(' ').find_map(|f| f.strip_prefix(name)).unwrap_or("").to_string() };
    let (seed0, base) = outputs[0].clone();
    for (seed, lines) in &outputs {
        t.evaluations += lines.len() as u64;
        t.cases += 1;
        if lines.len() != base.len() {
            t.violation("C10.miri.outcome_differs_between_hash_seeds", format!("Miri seed {seed} prints {} result lines, seed {seed0} prints {}", lines.len(), base.len()), || json!({"kind": "miri", "seed": seed}));
            continue;
        }
        for (a, b) in base.iter().zip(lines.iter()) {
            let (oa, ob) = (field(a, "outcome="), field(b, "outcome="));
            if oa.split(':').next() != ob.split(':').next() {
                t.violation("C10.miri.outcome_differs_between_hash_seeds", format!("seed {seed0}: `{}`; seed {seed}: `{}`", a.chars().take(160).collect::<String>(), b.chars().take(160).collect::<String>()), || json!({"kind": "miri", "seed": seed, "reference_seed": seed0, "reference": a, "line": b}));
            } else if !cli::reports_equal(&strip(a), &strip(b), 0.0) {
                t.violation("C10.miri.result_differs_between_hash_seeds", format!("results differ between Miri seeds {seed0} and {seed} (replay: MIRIFLAGS=-Zmiri-seed={seed} cargo +nightly miri run in /verif/miri-driver): `{}` vs `{}`", strip(a).chars().take(300).collect::<String>(), strip(b).chars().take(300).collect::<String>()), || json!({"kind": "miri", "seed": seed, "reference_seed": seed0, "reference": a, "line": b}));
            }
            let o = format!("{}|{}", field(b, "order="), field(b, "aux_order="));
            if o.len() > 1 {
                t.set_insert("miri_iteration_orders", o);
            }
            t.count("miri_lines_compared");
        }
        t.nontrivial(*seed);
        t.sample(|| json!({"miri_seed": seed, "first_line": lines.first()}));
    }
    let orders = t.sets.get("miri_iteration_orders").map(|s| s.len() as u64).unwrap_or(0);
    Report {
        tally: t,
        rule: "the driver /verif/miri-driver (three small multi-system buildings: auxiliaries on several multi-service systems, heating + cooling outputs, ambient heat on two ids, cogeneration with two fuels, PV, negative and huge ids) is interpreted by Miri under -Zmiri-seed = 0..15; each seed fixes every HashMap / HashSet iteration order replayably; outcomes must agree and results must agree within rounding across seeds; distinct = Miri seeds".into(),
        assumptions: vec!["Miri derives RandomState keys from its seeded RNG (isolation on)".into()],
        quotas: vec![("distinct_miri_iteration_orders".into(), orders, 2)],
    }
}
