//! Registry of monitors: one module per property.

pub mod common;

pub mod c01;
pub mod c02;
pub mod c03;
pub mod c04;
pub mod c05;
pub mod c06;
pub mod c07;
pub mod c08;
pub mod c09;
pub mod c10;
pub mod c11;
pub mod c12;
pub mod c13;
pub mod c14;
pub mod c15;
pub mod c16;
pub mod c17;
pub mod c18;
pub mod c19;

use crate::{Ctx, Report};
use serde_json::Value;

pub fn run(prop: &str, ctx: &Ctx) -> Option<Report> {
    Some(match prop {
        "C01" => c01::run(ctx),
        "C02" => c02::run(ctx),
        "C03" => c03::run(ctx),
        "C04" => c04::run(ctx),
        "C05" => c05::run(ctx),
        "C06" => c06::run(ctx),
        "C07" => c07::run(ctx),
        "C08" => c08::run(ctx),
        "C09" => c09::run(ctx),
        "C10" => c10::run(ctx),
        "C11" => c11::run(ctx),
        "C12" => c12::run(ctx),
        "C13" => c13::run(ctx),
        "C14" => c14::run(ctx),
        "C15" => c15::run(ctx),
        "C16" => c16::run(ctx),
        "C17" => c17::run(ctx),
        "C18" => c18::run(ctx),
        "C19" => c19::run(ctx),
        "C16-valgrind" => c16::run_valgrind(ctx),
        "C10-miri" => c10::run_miri(ctx),
        _ => return None,
    })
}

pub fn replay(prop: &str, ctx: &Ctx, monitor: &str, w: &Value) -> Option<Report> {
    match prop {
        "C01" => c01::replay(ctx, monitor, w),
        "C02" => c02::replay(ctx, monitor, w),
        "C03" => c03::replay(ctx, monitor, w),
        "C04" => c04::replay(ctx, monitor, w),
        "C05" => c05::replay(ctx, monitor, w),
        "C06" => c06::replay(ctx, monitor, w),
        "C07" => c07::replay(ctx, monitor, w),
        "C08" => c08::replay(ctx, monitor, w),
        "C09" => c09::replay(ctx, monitor, w),
        "C10" => c10::replay(ctx, monitor, w),
        "C11" => c11::replay(ctx, monitor, w),
        "C12" => c12::replay(ctx, monitor, w),
        "C13" => c13::replay(ctx, monitor, w),
        "C14" => c14::replay(ctx, monitor, w),
        "C15" => c15::replay(ctx, monitor, w),
        "C16" => c16::replay(ctx, monitor, w),
        "C17" => c17::replay(ctx, monitor, w),
        "C18" => c18::replay(ctx, monitor, w),
        "C19" => c19::replay(ctx, monitor, w),
        _ => None,
    }
}
