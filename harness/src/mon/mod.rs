//! Registry of monitors: one module per property.

pub mod common;

pub mod c01;
pub mod c02;
pub mod c03;
pub mod c04;

use crate::{Ctx, Report};
use serde_json::Value;

pub fn run(prop: &str, ctx: &Ctx) -> Option<Report> {
    Some(match prop {
        "C01" => c01::run(ctx),
        "C02" => c02::run(ctx),
        "C03" => c03::run(ctx),
        "C04" => c04::run(ctx),
        _ => return None,
    })
}

pub fn replay(prop: &str, ctx: &Ctx, monitor: &str, w: &Value) -> Option<Report> {
    match prop {
        "C01" => c01::replay(ctx, monitor, w),
        "C02" => c02::replay(ctx, monitor, w),
        "C03" => c03::replay(ctx, monitor, w),
        "C04" => c04::replay(ctx, monitor, w),
        _ => None,
    }
}
