//! C01 — energy is conserved per carrier and time step.
//!
//! Oracle: the identities and bounds of the property, evaluated on every carrier / step / source of
//! the returned balance, plus an anchor to the declared inputs (the flows the identities relate
//! must be the aggregation of the declared components, so a consistently dropped component is seen).

use super::common::*;
use crate::case::{gen_case, Case};
use crate::gen::{Class, GenOpts};
use crate::refmodel::Tol;
use crate::tally::Tally;
use crate::{run_sharded, Ctx, Report};
use cteepbd::types::{BalanceCarrier, Carrier, ProdSource};
use serde_json::{json, Value};

const PROP: &str = "C01";

fn is_dyadic(case: &Case) -> bool {
    // all declared values are multiples of 1/8 up to 1024 kWh and there are few enough steps for every
    // f32 sum / difference / min of the balance to be exact; reassigned auxiliaries involve a division
    case.spec.n <= 24
        && !case.spec.has_aux()
        && case.spec.lines.iter().all(|l| l.values().iter().all(|x| (*x * 8.0).fract() == 0.0 && x.abs() <= 1024.0))
}

fn regime(b: &BalanceCarrier, i: usize) -> &'static str {
    let u = b.used.epus_t[i];
    let pv = b.prod.by_src_t.get(&ProdSource::EL_INSITU).map(|v| v[i]).unwrap_or(0.0);
    let chp = b.prod.by_src_t.get(&ProdSource::EL_COGEN).map(|v| v[i]).unwrap_or(0.0);
    if u == 0.0 {
        "zero_use"
    } else if pv + chp == 0.0 {
        "zero_production"
    } else if pv >= u {
        "pv_covers_use"
    } else if pv + chp >= u {
        "pv_plus_chp_covers_use"
    } else {
        "use_exceeds_production"
    }
}

pub fn check_case(_ctx: &Ctx, case: &Case, t: &mut Tally) {
    let Some((comps, fac)) = prepare(PROP, case, t) else { return };
    let dyadic_inputs = is_dyadic(case);
    let n_steps = case.spec.n;
    let mut nontrivial = false;
    for lm in [case.lm, !case.lm] {
        let Some(ep) = eval(PROP, case, &comps, &fac, case.k, case.area, lm, t) else { return };
        let exact = dyadic_inputs && !lm;
        let wit = |extra: Value| {
            let mut w = case.witness();
            w["load_matching_evaluated"] = json!(lm);
            w["observed"] = extra;
            w
        };
        for (cr, b) in &ep.balance_cr {
            let n = b.used.epus_t.len();
            let vecs: [(&str, &Vec<f32>); 9] = [
                ("used.nepus_t", &b.used.nepus_t),
                ("used.cgnus_t", &b.used.cgnus_t),
                ("prod.t", &b.prod.t),
                ("prod.epus_t", &b.prod.epus_t),
                ("exp.t", &b.exp.t),
                ("exp.grid_t", &b.exp.grid_t),
                ("exp.nepus_t", &b.exp.nepus_t),
                ("del.grid_t", &b.del.grid_t),
                ("f_match", &b.f_match),
            ];
            if n != case.spec.n || vecs.iter().any(|(_, v)| v.len() != n) {
                t.violation("C01.vector_length", format!("{cr}: per-step vectors do not all have the {} declared steps", case.spec.n), || wit(json!({"carrier": cr.to_string()})));
                continue;
            }
            if b.prod.an > 0.0 {
                nontrivial = true;
            }
            for i in 0..n {
                t.count("carrier_steps_checked");
                let (u, nu, p, pu, e, en, eg, dg) = (
                    b.used.epus_t[i] as f64,
                    b.used.nepus_t[i] as f64,
                    b.prod.t[i] as f64,
                    b.prod.epus_t[i] as f64,
                    b.exp.t[i] as f64,
                    b.exp.nepus_t[i] as f64,
                    b.exp.grid_t[i] as f64,
                    b.del.grid_t[i] as f64,
                );
                let sc = u.abs().max(p.abs()).max(nu.abs());
                // rounding slack: exactly zero on the dyadic class without load matching
                let eps = if exact { 0.0 } else { 1e-6 * sc + 1e-9 };
                let obs = || json!({"carrier": cr.to_string(), "step": i, "epus": u, "nepus": nu, "prod": p, "prod_used": pu, "exp": e, "exp_nepus": en, "exp_grid": eg, "del_grid": dg, "exact_class": exact});
                if (p - (pu + e)).abs() > eps {
                    t.violation("C01.prod=used+exp", format!("{cr} step {i}: produced {p} != used by EPB {pu} + exported {e}"), || wit(obs()));
                }
                if (e - (en + eg)).abs() > eps {
                    t.violation("C01.exp=nepus+grid", format!("{cr} step {i}: exported {e} != to non-EPB {en} + to grid {eg}"), || wit(obs()));
                }
                if (u - (pu + dg)).abs() > eps {
                    t.violation("C01.use=used+grid", format!("{cr} step {i}: EPB use {u} != produced-and-used {pu} + delivered by grid {dg}"), || wit(obs()));
                }
                for (name, x) in [("epus", u), ("nepus", nu), ("prod", p), ("prod_used", pu), ("exp", e), ("exp_nepus", en), ("exp_grid", eg), ("del_grid", dg)] {
                    if x < -eps || x.is_nan() {
                        t.violation("C01.negative_flow", format!("{cr} step {i}: flow {name} = {x} is negative"), || wit(obs()));
                    }
                }
                if pu > u.min(p) + eps {
                    t.violation("C01.used<=min(use,prod)", format!("{cr} step {i}: produced-and-used {pu} exceeds min(EPB use {u}, production {p})"), || wit(obs()));
                }
                if en > nu + eps {
                    t.violation("C01.exp_nepus<=nepus", format!("{cr} step {i}: exported to non-EPB uses {en} exceeds the non-EPB use {nu}"), || wit(obs()));
                }
                // per source
                let mut s_pr = 0.0;
                let mut s_us = 0.0;
                let mut s_ex = 0.0;
                for (src, pv) in &b.prod.by_src_t {
                    let (Some(us), Some(ex)) = (b.prod.epus_by_src_t.get(src), b.exp.by_src_t.get(src)) else {
                        t.violation("C01.by_source_missing", format!("{cr}: source {src} has production but no used/exported split"), || wit(obs()));
                        continue;
                    };
                    let (pj, uj, ej) = (pv[i] as f64, us[i] as f64, ex[i] as f64);
                    if (pj - (uj + ej)).abs() > eps || uj < -eps || ej < -eps {
                        t.violation("C01.by_source_split", format!("{cr} {src} step {i}: produced {pj} vs used {uj} + exported {ej}"), || wit(obs()));
                    }
                    s_pr += pj;
                    s_us += uj;
                    s_ex += ej;
                    t.count("source_steps_checked");
                }
                let eps3 = if exact { 0.0 } else { 3e-6 * sc + 1e-9 };
                if (s_pr - p).abs() > eps3 || (s_us - pu).abs() > eps3 || (s_ex - e).abs() > eps3 {
                    t.violation("C01.sources_add_up", format!("{cr} step {i}: per-source (prod {s_pr}, used {s_us}, exp {s_ex}) do not add up to the carrier totals ({p}, {pu}, {e})"), || wit(obs()));
                }
                if *cr == Carrier::ELECTRICIDAD {
                    t.count(&format!("regime.{}.{}", if lm { "lm" } else { "nolm" }, regime(b, i)));
                }
                if en > 0.0 && eg > 0.0 {
                    t.count("steps_exporting_to_both_destinations");
                }
            }
            // annual fields equal the sums of their vectors
            let sumf = |v: &Vec<f32>| -> (f64, f64) { (v.iter().map(|x| *x as f64).sum::<f64>(), v.iter().map(|x| x.abs() as f64).sum::<f64>()) };
            let ann: [(&str, f32, &Vec<f32>); 10] = [
                ("used.epus", b.used.epus_an, &b.used.epus_t),
                ("used.nepus", b.used.nepus_an, &b.used.nepus_t),
                ("used.cgnus", b.used.cgnus_an, &b.used.cgnus_t),
                ("prod", b.prod.an, &b.prod.t),
                ("prod.epus", b.prod.epus_an, &b.prod.epus_t),
                ("exp.grid", b.exp.grid_an, &b.exp.grid_t),
                ("exp.nepus", b.exp.nepus_an, &b.exp.nepus_t),
                ("del.grid", b.del.grid_an, &b.del.grid_t),
                ("del.onst", b.del.onst_an, &b.del.onst_t),
                ("del.cgn", b.del.cgn_an, &b.del.cgn_t),
            ];
            let ntol = |a: f64| if exact { 0.0 } else { (n as f64 + 4.0) * 1.2e-7 * a + 1e-9 };
            for (name, an, v) in ann {
                let (s, a) = sumf(v);
                if (an as f64 - s).abs() > ntol(a) {
                    t.violation("C01.annual=sum_of_steps", format!("{cr}: annual {name} = {an} but its steps add up to {s}"), || wit(json!({"carrier": cr.to_string(), "field": name})));
                }
            }
            let (se, ae) = sumf(&b.exp.t);
            if (b.exp.an as f64 - se).abs() > 2.0 * ntol(ae) {
                t.violation("C01.annual=sum_of_steps", format!("{cr}: annual exported {} but its steps add up to {se}", b.exp.an), || wit(json!({"carrier": cr.to_string(), "field": "exp"})));
            }
            for (src, v) in &b.prod.by_src_t {
                let (s, a) = sumf(v);
                let an = b.prod.by_src_an.get(src).copied().unwrap_or(f32::NAN) as f64;
                let (su, au) = b.prod.epus_by_src_t.get(src).map(sumf).unwrap_or((f64::NAN, 0.0));
                let anu = b.prod.epus_by_src_an.get(src).copied().unwrap_or(f32::NAN) as f64;
                let (sx, ax) = b.exp.by_src_t.get(src).map(sumf).unwrap_or((f64::NAN, 0.0));
                let anx = b.exp.by_src_an.get(src).copied().unwrap_or(f32::NAN) as f64;
                if !((an - s).abs() <= ntol(a)) || !((anu - su).abs() <= ntol(au)) || !((anx - sx).abs() <= ntol(ax)) {
                    t.violation("C01.annual=sum_of_steps", format!("{cr} {src}: annual by-source values ({an}, {anu}, {anx}) vs step sums ({s}, {su}, {sx})"), || wit(json!({"carrier": cr.to_string(), "source": src.to_string()})));
                }
            }
        }
        // (a) anchor to the declared inputs
        match ref_eval_spec(&case.spec, &fac, case.k, case.area, lm) {
            Some(Ok(rf)) => {
                let fl = flat(&ep);
                // reassigned auxiliaries use annual output shares at steps without output: f32 sums over n steps
                let tol = Tol { atol: 1e-7, rtol: if exact { 0.0 } else { 4e-6 + 1.5e-7 * n_steps as f64 } };
                let anchored = |p: &str| -> bool {
                    p.starts_with("balance_cr.")
                        && (p.contains(".used.epus_t[") || p.contains(".used.nepus_t[") || p.contains(".used.cgnus_t[") || p.contains(".prod.t[") || p.contains(".prod.by_src_t.") || p.contains(".used.epus_by_srv_t."))
                };
                let (diffs, _, compared) = compare(&fl, &rf, &tol, &|p| !anchored(p));
                t.add("anchored_flow_values_compared", compared);
                if !diffs.is_empty() {
                    t.violation("C01.flows_match_declared_components", format!("flows are not the aggregation of the declared components: {}", describe(&diffs, 4)), || wit(json!({"differences": diffs.len()})));
                }
                t.count("cases_anchored_to_declared_inputs");
            }
            Some(Err(_)) => t.count("anchor.reference_error"),
            None => t.count("anchor.skipped_ambiguous_or_rejected"),
        }
    }
    if nontrivial {
        t.nontrivial(case.hash());
        if case.spec.has_cogen() && case.spec.has_pv() {
            t.count("cases_with_two_electric_sources");
        }
        t.sample(|| short_case(case));
    }
}

pub fn run(ctx: &Ctx) -> Report {
    let total = ctx.cases(12_000, 400_000);
    let mut o = GenOpts::default();
    o.long_steps = ctx.thorough();
    let tally = run_sharded(ctx, total, |_idx, r, t| {
        let mut o = o.clone();
        if r.chance(1, 2) {
            o.class = Some(Class::Dyadic);
        }
        let case = gen_case(r, &o, 25);
        check_case(ctx, &case, t);
    });
    let mut quotas = vec![];
    for m in ["lm", "nolm"] {
        for reg in ["zero_use", "zero_production", "pv_covers_use", "pv_plus_chp_covers_use", "use_exceeds_production"] {
            quotas.push((format!("regime.{m}.{reg}"), tally.get(&format!("regime.{m}.{reg}")), 50));
        }
    }
    quotas.push(("steps_exporting_to_both_destinations".into(), tally.get("steps_exporting_to_both_destinations"), 20));
    quotas.push(("cases_with_two_electric_sources".into(), tally.get("cases_with_two_electric_sources"), 20));
    quotas.push(("cases_anchored_to_declared_inputs".into(), tally.get("cases_anchored_to_declared_inputs"), 100));
    Report {
        tally,
        rule: "buildings from the regime-directed generator (1-24 steps, thorough also 365/8760; dyadic and decimal value classes; values 0 or >= 0.01 kWh), each evaluated with and without load matching; every carrier x step x source checked; non-trivial = the building produces energy on at least one carrier; distinct = distinct (components text, factors, k_exp, area)".into(),
        assumptions: vec![
            "inputs are non-negative except output-energy (SALIDA) lines, values are 0 or >= 0.01 kWh".into(),
            "rounding slack: none on the dyadic class without load matching, 1e-6 of the step's largest flow otherwise".into(),
        ],
        quotas,
    }
}

pub fn replay(ctx: &Ctx, _monitor: &str, w: &Value) -> Option<Report> {
    let case: Case = serde_json::from_value(w["case"].clone()).ok()?;
    let mut t = Tally::default();
    check_case(ctx, &case, &mut t);
    Some(Report { tally: t, rule: "replay".into(), assumptions: vec![], quotas: vec![] })
}
