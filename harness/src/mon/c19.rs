//! C19 — CLI options beat file metadata, which beats defaults; bad values are refused.
//!
//! Oracle: a decision table written from the property text. Observations: exit status, the three echo
//! lines (origin and value), the --json document (k_exp, arearef, factors), the --oc metadata, and the
//! results themselves (recomputed in-process from the *expected* effective values).

use crate::case::{FacChoice, LOCS};
use crate::cli;
use crate::rng::Rng;
use crate::safe::{self, Out};
use crate::tally::Tally;
use crate::{run_sharded, Ctx, Report};
use serde::{Deserialize, Serialize};
use serde_json::{json, Value};

const PROP: &str = "C19";

const BASE: &str = "0, CONSUMO, CAL, ELECTRICIDAD, 100, 40\n1, CONSUMO, ACS, RED1, 50, 50\n1, CONSUMO, ACS, RED2, 40, 10\n2, CONSUMO, ILU, GASNATURAL, 12.5, 12.5\n0, PRODUCCION, EL_INSITU, 160, 10\n";
/// user factor file with marker values (no regulatory set has them); RED1 line optional
const FFILE: &str = "ELECTRICIDAD, RED, SUMINISTRO, A, 0.123, 2.345, 0.333\nGASNATURAL, RED, SUMINISTRO, A, 0.011, 1.111, 0.222\nELECTRICIDAD, INSITU, A_RED, B, 0.5, 1.5, 0.25\n";
const FFILE_RED1: &str = "RED1, RED, SUMINISTRO, A, 0.7, 0.2, 0.05\n";

#[derive(Clone, Debug, Serialize, Deserialize, PartialEq)]
pub enum Given {
    Absent,
    Valid(String),
    /// out of range or not a number
    Invalid(String),
}

impl Given {
    fn text(&self) -> Option<&str> {
        match self {
            Given::Absent => None,
            Given::Valid(s) | Given::Invalid(s) => Some(s),
        }
    }
}

#[derive(Clone, Debug, Serialize, Deserialize)]
pub struct Config {
    pub area_opt: Given,
    pub area_meta: Given,
    pub kexp_opt: Given,
    pub kexp_meta: Given,
    /// -l
    pub loc_opt: Option<String>,
    /// CTE_LOCALIZACION metadata: Valid(name) / Invalid("MARTE") / Absent
    pub loc_meta: Given,
    /// -f given (with or without a RED1 line in the file)
    pub ffile: Option<bool>,
    pub red1_opt: Given,
    pub red1_meta: Given,
    pub red2_opt: Given,
    pub red2_meta: Given,
    pub load_matching: bool,
    /// where the metadata lines sit in the components file: 0 at the top, 1 after the first data line, 2 at the end,
    /// 3 scattered between the data lines (metadata is metadata wherever it is written); bit 2: a comment line first
    #[serde(default)]
    pub meta_layout: u8,
    /// metadata written in the legacy spelling (`#CTE_Area_ref:`, `#CTE_kexp:`, `#CTE_Localizacion:`): bits area 1, k_exp 2, location 4
    #[serde(default)]
    pub legacy: u8,
    /// metadata line written twice with the same value (the second time in the other spelling where one exists):
    /// bits area 1, k_exp 2, location 4, RED1 8, RED2 16
    #[serde(default)]
    pub dup: u8,
    /// number of -v flags (diagnostics must not change what is computed or recorded)
    #[serde(default)]
    pub verbosity: u8,
    /// 0 a building; 1 no components file at all; 2 a file with metadata only; 3 a file with metadata and DEMANDA lines
    /// only (nothing can be computed, but bad values are still refused and good ones echoed with their origin)
    #[serde(default)]
    pub shape: u8,
}

fn pick_area(r: &mut Rng, for_option: bool) -> Given {
    match r.below(8) {
        0..=2 => Given::Valid(r.pick(&["1", "50", "200.5", "0.0011", "1000000", "37.25", "0.5", "2e2", "5e-1", "1.5E1", "+3", "12.", ".75", "007", "1.1e-3"]).to_string()),
        3 => Given::Invalid(r.pick(&["0", "0.001", "0.0005", "-5", "-0.5", "1e-3", "-2e2", "0e0"]).to_string()),
        4 => Given::Invalid(if for_option { r.pick(&["abc", "1,5", "10m2", "2 m"]).to_string() } else { r.pick(&["abc", "1,5", "10m2", "", "dos"]).to_string() }),
        _ => Given::Absent,
    }
}
fn pick_kexp(r: &mut Rng, for_option: bool) -> Given {
    match r.below(8) {
        0..=2 => Given::Valid(r.pick(&["0", "1", "0.5", "0.3", "1.0", "0.0", "0.7", "5e-1", "1e0", "0e0", "+0.5", ".5", "1.", "0.50", "3E-1"]).to_string()),
        3 => Given::Invalid(r.pick(&["-0.1", "1.5", "2", "1.0001", "-1", "1.5e0", "2e0", "-1e-1"]).to_string()),
        4 => Given::Invalid(if for_option { r.pick(&["x", "0,5", "medio"]).to_string() } else { r.pick(&["x", "0,5", "", "medio"]).to_string() }),
        _ => Given::Absent,
    }
}
/// RED1 / RED2 as option (three arguments separated by blanks) or as metadata text
fn pick_red(r: &mut Rng, for_option: bool) -> Given {
    match r.below(6) {
        0..=1 => {
            if for_option {
                Given::Valid(r.pick(&["0.5 0.6 0.1", "1 0 0", "0.25 1.75 0.4", "0 2.5 0.5", "0 1.3 0.3", "0.0 1.30 0.300", "0.123 1.456 0.789", "0.005 0.015 0.001"]).to_string())
            } else {
                Given::Valid(r.pick(&["0.5, 0.6, 0.1", "(1, 0, 0)", "{ ren: 0.25, nren: 1.75, co2: 0.4 }", "0,2.5,0.5", "0.500, 0.600, 0.100", "0, 1.3, 0.3", "{ ren: 0, nren: 1.3, co2: 0.3 }", "0.321, 1.654, 0.987"]).to_string())
            }
        }
        2 => {
            if for_option {
                Given::Invalid(r.pick(&["x 1 2", "1 abc 3", "0.5 0.5 z"]).to_string())
            } else {
                Given::Invalid(r.pick(&["abc", "1, 2", "1, x, 3", "{ ren: x }", "", "1 2 3", "{ ren: 1, nren: dos, co2: 0 }", "1, 2, 3, 4"]).to_string())
            }
        }
        _ => Given::Absent,
    }
}

/// a valid value close to, but different from, another valid value (same parameter, other origin)
fn near(r: &mut Rng, v: &str, lo: f64, hi: f64) -> Option<String> {
    let x: f64 = v.parse().ok()?;
    let d = *r.pick(&[0.04, -0.04, 0.01, -0.01, 0.004, 0.03]);
    let y = ((x + d) * 1000.0).round() / 1000.0;
    if y > lo && y <= hi && y != x {
        Some(format!("{y}"))
    } else {
        None
    }
}

pub fn gen_config(r: &mut Rng) -> Config {
    let mut c = gen_config_base(r);
    if matches!(c.area_opt, Given::Valid(_)) && matches!(c.area_meta, Given::Valid(_)) && r.chance(1, 6) {
        // tiny areas that differ by less than a thousandth of a m2: still two different values, the option wins
        let (o, m) = *r.pick(&[("0.002", "0.0015"), ("0.0024", "0.0021"), ("0.0015", "0.002"), ("0.0011", "0.0019")]);
        c.area_opt = Given::Valid(o.to_string());
        c.area_meta = Given::Valid(m.to_string());
    }
    if c.ffile == Some(true) && r.chance(1, 3) {
        // the file has its own RED1 line and the metadata give RED1 the value that is also the built-in default: it is
        // still a user value and beats the file
        c.red1_meta = Given::Valid(r.pick(&["0, 1.3, 0.3", "0.0, 1.3, 0.3", "{ ren: 0, nren: 1.3, co2: 0.3 }"]).to_string());
    }
    if r.chance(1, 12) {
        c.shape = 1 + r.below(3) as u8;
        if c.shape == 1 {
            // no components file: no metadata either; the option parser wants a factor source
            if c.loc_opt.is_none() && c.ffile.is_none() {
                c.loc_opt = Some(r.pick(&LOCS).to_string());
            }
            for m in [&mut c.area_meta, &mut c.kexp_meta, &mut c.loc_meta, &mut c.red1_meta, &mut c.red2_meta] {
                *m = Given::Absent;
            }
        }
    }
    // option and metadata both valid: often make them close but different (a tie-break by distance must not happen)
    if let (Given::Valid(o), Given::Valid(_)) = (&c.kexp_opt, &c.kexp_meta) {
        if r.chance(1, 2) {
            if let Some(m) = near(r, o, -1e-9, 1.0) {
                c.kexp_meta = Given::Valid(m);
            }
        }
    }
    if let (Given::Valid(o), Given::Valid(_)) = (&c.area_opt, &c.area_meta) {
        if r.chance(1, 2) {
            if let Some(m) = near(r, o, 0.0011, 1e9) {
                c.area_meta = Given::Valid(m);
            }
        }
    }
    for which in 0..2 {
        let (o, m) = if which == 0 { (&c.red1_opt, &mut c.red1_meta) } else { (&c.red2_opt, &mut c.red2_meta) };
        if let (Given::Valid(o), Given::Valid(_)) = (o, &*m) {
            if r.chance(1, 2) {
                if let Some(t) = parse_triple(o) {
                    // differs in the third decimal of one component only
                    let k = r.usize(3);
                    let mut t2 = t;
                    t2[k] = ((t[k] as f64 + 0.001) * 1000.0).round() as f32 / 1000.0;
                    *m = Given::Valid(format!("{}, {}, {}", t2[0], t2[1], t2[2]));
                }
            }
        }
    }
    c
}

fn gen_config_base(r: &mut Rng) -> Config {
    let ffile = if r.chance(1, 4) { Some(r.chance(1, 2)) } else { None };
    Config {
        area_opt: pick_area(r, true),
        area_meta: pick_area(r, false),
        kexp_opt: pick_kexp(r, true),
        kexp_meta: pick_kexp(r, false),
        loc_opt: if ffile.is_none() && r.chance(1, 2) { Some(r.pick(&LOCS).to_string()) } else { None },
        loc_meta: match r.below(5) {
            0..=1 => Given::Valid(r.pick(&LOCS).to_string()),
            2 => Given::Invalid(r.pick(&["MARTE", "peninsula", "", "PENINSULA2"]).to_string()),
            _ => Given::Absent,
        },
        ffile,
        // --red1 / --red2 conflict with -f in the option parser: only metadata can carry them then
        red1_opt: if ffile.is_none() { pick_red(r, true) } else { Given::Absent },
        red1_meta: pick_red(r, false),
        red2_opt: if ffile.is_none() { pick_red(r, true) } else { Given::Absent },
        red2_meta: pick_red(r, false),
        load_matching: r.chance(1, 4),
        meta_layout: if r.chance(1, 2) { 0 } else { r.below(8) as u8 },
        legacy: if r.chance(1, 4) { r.below(8) as u8 } else { 0 },
        dup: if r.chance(1, 4) { r.below(32) as u8 } else { 0 },
        verbosity: if r.chance(1, 3) { 1 + r.below(3) as u8 } else { 0 },
        shape: 0,
    }
}

fn parse_triple(s: &str) -> Option<[f32; 3]> {
    let s = s.replace("co2", "co");
    let cleaned: String = s.chars().map(|c| if c.is_ascii_digit() || c == '.' || c == '-' { c } else { ' ' }).collect();
    // "{ ren: a, nren: b, co2: c }" is given in that key order by the generator
    let v: Vec<f32> = cleaned.split_whitespace().filter_map(|x| x.parse().ok()).collect();
    if v.len() == 3 {
        Some([v[0], v[1], v[2]])
    } else {
        None
    }
}

#[derive(Debug, Clone)]
pub struct Expected {
    /// acceptable exit codes
    pub codes: Vec<i32>,
    /// when exit 0 is acceptable: effective values and origins
    pub area: (f32, &'static str),
    pub kexp: (f32, &'static str),
    pub factors_origin: &'static str,
    pub factors_param: String,
    pub red1: Option<([f32; 3], &'static str)>,
    pub red2: Option<([f32; 3], &'static str)>,
    pub fac: Option<FacChoice>,
}

/// decision table of the property
pub fn expected(c: &Config) -> Expected {
    let mut codes: Vec<i32> = vec![];
    let fail = |code: i32, codes: &mut Vec<i32>| {
        if !codes.contains(&code) {
            codes.push(code);
        }
    };
    let mut ok_possible = true;
    // numeric parameters: option > metadata > default; invalid in the origin that decides -> 65;
    // an invalid metadata value next to a valid option may be refused as well (65) or ignored
    let numeric = |opt: &Given, meta: &Given, default: f32, codes: &mut Vec<i32>, ok_possible: &mut bool| -> (f32, &'static str, bool) {
        let mut optional_65 = false;
        let r = match (opt, meta) {
            (Given::Invalid(_), _) => {
                fail(65, codes);
                *ok_possible = false;
                (default, "predefinido")
            }
            (Given::Valid(s), m) => {
                if matches!(m, Given::Invalid(_)) {
                    optional_65 = true;
                }
                (s.parse::<f32>().unwrap_or(default), "usuario")
            }
            (Given::Absent, Given::Valid(s)) => (s.parse::<f32>().unwrap_or(default), "metadatos"),
            (Given::Absent, Given::Invalid(_)) => {
                fail(65, codes);
                *ok_possible = false;
                (default, "predefinido")
            }
            (Given::Absent, Given::Absent) => (default, "predefinido"),
        };
        (r.0, r.1, optional_65)
    };
    let (area, area_o, a65) = numeric(&c.area_opt, &c.area_meta, 1.0, &mut codes, &mut ok_possible);
    let (kexp, kexp_o, k65) = numeric(&c.kexp_opt, &c.kexp_meta, 0.0, &mut codes, &mut ok_possible);
    // RED1 / RED2: option > metadata > file value > default
    let red = |opt: &Given, meta: &Given, codes: &mut Vec<i32>, ok_possible: &mut bool| -> (Option<([f32; 3], &'static str)>, bool) {
        match (opt, meta) {
            (Given::Invalid(_), _) => {
                fail(65, codes);
                *ok_possible = false;
                (None, false)
            }
            (Given::Valid(s), m) => (parse_triple(s).map(|v| (v, "usuario")), matches!(m, Given::Invalid(_))),
            (Given::Absent, Given::Valid(s)) => (parse_triple(s).map(|v| (v, "metadatos")), false),
            (Given::Absent, Given::Invalid(_)) => {
                fail(65, codes);
                *ok_possible = false;
                (None, false)
            }
            (Given::Absent, Given::Absent) => (None, false),
        }
    };
    let (red1, r1_65) = red(&c.red1_opt, &c.red1_meta, &mut codes, &mut ok_possible);
    let (red2, r2_65) = red(&c.red2_opt, &c.red2_meta, &mut codes, &mut ok_possible);
    // factor source: file > -l > CTE_LOCALIZACION > exit 64
    let r1v = red1.map(|x| x.0);
    let r2v = red2.map(|x| x.0);
    let (fo, fp, fac): (&'static str, String, Option<FacChoice>) = match (&c.ffile, &c.loc_opt, &c.loc_meta) {
        (Some(with_red1), _, _) => ("archivo", "{F}".into(), Some(FacChoice::User { text: format!("{}{}", FFILE, if *with_red1 { FFILE_RED1 } else { "" }), red1: r1v, red2: r2v })),
        (None, Some(l), _) => ("usuario", l.clone(), Some(FacChoice::Loc { loc: l.clone(), red1: r1v, red2: r2v })),
        (None, None, Given::Valid(l)) => ("metadatos", l.clone(), Some(FacChoice::Loc { loc: l.clone(), red1: r1v, red2: r2v })),
        (None, None, Given::Invalid(_)) => {
            fail(65, &mut codes);
            ok_possible = false;
            ("metadatos", String::new(), None)
        }
        (None, None, Given::Absent) => {
            fail(64, &mut codes);
            ok_possible = false;
            ("", String::new(), None)
        }
    };
    if ok_possible {
        codes.push(0);
        if a65 || k65 || r1_65 || r2_65 {
            codes.push(65);
        }
    }
    Expected { codes, area: (area, area_o), kexp: (kexp, kexp_o), factors_origin: fo, factors_param: fp, red1, red2, fac }
}

fn components_text(c: &Config) -> String {
    let mut meta = vec![];
    for (i, (key, old, g)) in [("CTE_AREAREF", "Area_ref", &c.area_meta), ("CTE_KEXP", "kexp", &c.kexp_meta), ("CTE_LOCALIZACION", "Localizacion", &c.loc_meta), ("CTE_RED1", "", &c.red1_meta), ("CTE_RED2", "", &c.red2_meta)].into_iter().enumerate() {
        if let Some(t) = g.text() {
            let new_form = format!("#META {key}: {t}");
            let old_form = if old.is_empty() { new_form.clone() } else { format!("#CTE_{old}: {t}") };
            let legacy = c.legacy & (1 << i) != 0;
            meta.push(if legacy { old_form.clone() } else { new_form.clone() });
            if c.dup & (1 << i) != 0 {
                meta.push(if legacy { new_form } else { old_form });
            }
        }
    }
    let data: Vec<&str> = match c.shape {
        0 => BASE.lines().collect(),
        3 => vec!["DEMANDA, ACS, 10, 20", "DEMANDA, CAL, 30, 5"],
        _ => vec!["# sin componentes"],
    };
    let mut out: Vec<String> = vec![];
    if c.meta_layout & 4 != 0 {
        out.push("# edificio de prueba".to_string());
    }
    match c.meta_layout & 3 {
        0 => {
            out.extend(meta);
            out.extend(data.iter().map(|l| l.to_string()));
        }
        1 => {
            out.push(data[0].to_string());
            out.extend(meta);
            out.extend(data[1..].iter().map(|l| l.to_string()));
        }
        2 => {
            out.extend(data.iter().map(|l| l.to_string()));
            out.extend(meta);
        }
        _ => {
            // one metadata line after each of the first data lines, the rest at the end
            let mut m = meta.into_iter();
            for l in &data {
                out.push(l.to_string());
                if let Some(x) = m.next() {
                    out.push(x);
                }
            }
            out.extend(m);
        }
    }
    let mut s = out.join("\n");
    s.push('\n');
    s
}

fn argv(c: &Config) -> Vec<String> {
    let mut a: Vec<String> = vec![];
    match c.verbosity {
        0 => {}
        2 => a.push("-vv".into()),
        n => (0..n).for_each(|_| a.push("-v".into())),
    }
    if c.shape != 1 {
        a.extend(["-c".to_string(), "{C}".to_string()]);
    }
    if let Some(t) = c.area_opt.text() {
        a.push(format!("--arearef={t}"));
    }
    if let Some(t) = c.kexp_opt.text() {
        a.push(format!("--kexp={t}"));
    }
    if let Some(l) = &c.loc_opt {
        a.push("-l".into());
        a.push(l.clone());
    }
    if c.ffile.is_some() {
        a.push("-f".into());
        a.push("{F}".into());
    }
    for (name, g) in [("--red1", &c.red1_opt), ("--red2", &c.red2_opt)] {
        if let Some(t) = g.text() {
            a.push(name.into());
            for x in t.split_whitespace() {
                a.push(x.to_string());
            }
        }
    }
    if c.load_matching {
        a.push("--load_matching".into());
    }
    a.extend(["--json".to_string(), "{D}/o.json".to_string(), "--oc".to_string(), "{D}/oc.csv".to_string()]);
    a
}

fn echo<'a>(stdout: &'a str, prefix: &str) -> Option<(&'a str, &'a str)> {
    // "<prefix> (<origin>)<rest>: <value>"
    for l in stdout.lines() {
        // diagnostics (-vv) print other lines that begin alike ("Factores de paso de usuario:"): only a line of the
        // documented shape is the echo
        if let Some(rest) = l.strip_prefix(prefix) {
            let rest = rest.trim_start();
            let Some(rest) = rest.strip_prefix('(') else { continue };
            let Some((origin, tail)) = rest.split_once(')') else { continue };
            let Some((_, value)) = tail.split_once(": ") else { continue };
            return Some((origin, value.trim()));
        }
    }
    None
}

pub fn check_config(ctx: &Ctx, c: &Config, t: &mut Tally) {
    let Some(bin) = &ctx.cli_debug else {
        t.harness_error("C19 needs the cteepbd binary".into());
        return;
    };
    let exp = expected(c);
    let dir = cli::scratch_dir("c19");
    let (cpath, fpath) = (dir.join("c.csv"), dir.join("f.csv"));
    let ctext = components_text(c);
    let _ = std::fs::write(&cpath, &ctext);
    if let Some(with_red1) = c.ffile {
        let _ = std::fs::write(&fpath, format!("{}{}", FFILE, if with_red1 { FFILE_RED1 } else { "" }));
    }
    let sub = |x: &String| x.replace("{C}", &cpath.display().to_string()).replace("{F}", &fpath.display().to_string()).replace("{D}", &dir.display().to_string());
    let args_t = argv(c);
    let args: Vec<String> = args_t.iter().map(sub).collect();
    let res = cli::run(bin, &args, 20_000);
    t.evaluations += 1;
    let wit = |extra: Value| json!({"config": c, "components_text": ctext, "argv": args_t, "expected_exit_codes": exp.codes, "observed": extra, "stdout": res.stdout.chars().take(1500).collect::<String>(), "stderr": res.stderr.chars().take(800).collect::<String>()});
    if res.timed_out {
        if res.stderr.contains("panicked at") {
            t.violation("C19.program_crashed", "cteepbd panicked".into(), || wit(json!({})));
        } else {
            t.count("cli_timeouts_inconclusive");
        }
        let _ = std::fs::remove_dir_all(&dir);
        return;
    }
    let code = res.code.unwrap_or(-1);
    t.count(&format!("exit_{code}"));
    let has_report = res.stdout.contains("** Eficiencia energética");
    if !exp.codes.contains(&code) {
        let name = if code == 0 { "C19.bad_value_accepted" } else if exp.codes == vec![0] { "C19.valid_configuration_refused" } else { "C19.wrong_exit_code" };
        t.violation(name, format!("exit code {code}, the decision table allows {:?}", exp.codes), || wit(json!({"exit": code})));
    } else if code != 0 {
        if has_report {
            t.violation("C19.result_printed_despite_error", format!("exit code {code} but a result is printed"), || wit(json!({})));
        }
        if res.stderr.trim().is_empty() {
            t.violation("C19.error_not_reported", format!("exit code {code} with empty stderr"), || wit(json!({})));
        }
        t.count("refusals_checked");
    } else {
        // ---- exit 0: the effective values, their origin, their recording and their use
        let close = |a: f64, b: f64, tol: f64| (a - b).abs() <= tol + 1e-6 * b.abs();
        match echo(&res.stdout, "Área de referencia") {
            Some((o, v)) => {
                if o != exp.area.1 || !v.parse::<f64>().map(|x| close(x, exp.area.0 as f64, 0.00501)).unwrap_or(false) {
                    t.violation("C19.area_echo", format!("echoed area ({o}) {v}, expected ({}) {}", exp.area.1, exp.area.0), || wit(json!({})));
                }
            }
            None => t.violation("C19.area_echo", "no 'Área de referencia (origen)' line".into(), || wit(json!({}))),
        }
        match echo(&res.stdout, "Factor de exportación") {
            Some((o, v)) => {
                if o != exp.kexp.1 || !v.parse::<f64>().map(|x| close(x, exp.kexp.0 as f64, 0.0501)).unwrap_or(false) {
                    t.violation("C19.kexp_echo", format!("echoed k_exp ({o}) {v}, expected ({}) {}", exp.kexp.1, exp.kexp.0), || wit(json!({})));
                }
            }
            None => t.violation("C19.kexp_echo", "no 'Factor de exportación (origen)' line".into(), || wit(json!({}))),
        }
        match echo(&res.stdout, "Factores de paso") {
            Some((o, v)) => {
                let want_param = sub(&exp.factors_param);
                if o != exp.factors_origin || v != want_param {
                    t.violation("C19.factor_source_echo", format!("echoed factor source ({o}) {v}, expected ({}) {}", exp.factors_origin, want_param), || wit(json!({})));
                }
            }
            None => t.violation("C19.factor_source_echo", "no 'Factores de paso (origen)' line".into(), || wit(json!({}))),
        }
        // JSON: values used
        let js: Option<Value> = std::fs::read_to_string(dir.join("o.json")).ok().and_then(|s| serde_json::from_str(&s).ok());
        match &js {
            Some(j) => {
                let jk = j["k_exp"].as_f64().unwrap_or(f64::NAN);
                let ja = j["arearef"].as_f64().unwrap_or(f64::NAN);
                if !close(jk, exp.kexp.0 as f64, 1e-6) {
                    t.violation("C19.kexp_used", format!("the result was computed with k_exp = {jk}, expected {} ({})", exp.kexp.0, exp.kexp.1), || wit(json!({})));
                }
                if !close(ja, exp.area.0 as f64, 1e-6) {
                    t.violation("C19.area_used", format!("the result was computed with area = {ja}, expected {} ({})", exp.area.0, exp.area.1), || wit(json!({})));
                }
                // factors used: electricity grid factor identifies location / file; RED1, RED2
                let find = |cr: &str| -> Option<[f64; 3]> {
                    j["wfactors"]["wdata"].as_array()?.iter().find(|f| f["carrier"] == cr && f["source"] == "RED" && f["dest"] == "SUMINISTRO" && f["step"] == "A").map(|f| [f["ren"].as_f64().unwrap_or(f64::NAN), f["nren"].as_f64().unwrap_or(f64::NAN), f["co2"].as_f64().unwrap_or(f64::NAN)])
                };
                if let Some(fac) = &exp.fac {
                    if let Out::Ok(want) = safe::guard(|| fac.build()) {
                        for cr in ["ELECTRICIDAD", "RED1", "RED2", "GASNATURAL"] {
                            let carrier: cteepbd::types::Carrier = cr.parse().unwrap();
                            let mut w = want.wdata.iter().find(|f| f.carrier == carrier && f.source == cteepbd::types::Source::RED && f.dest == cteepbd::types::Dest::SUMINISTRO).map(|f| [f.ren as f64, f.nren as f64, f.co2 as f64]);
                            // RED1 / RED2: straight from the decision table (user value > file value > built-in default), not
                            // from the library's own preparation of the set
                            if cr == "RED1" || cr == "RED2" {
                                let user = if cr == "RED1" { &exp.red1 } else { &exp.red2 };
                                let file_value = if cr == "RED1" && c.ffile == Some(true) { Some([0.7, 0.2, 0.05]) } else { None };
                                w = Some(match (user, file_value) {
                                    (Some((v, _)), _) => [v[0] as f64, v[1] as f64, v[2] as f64],
                                    (None, Some(f)) => f,
                                    (None, None) => [0.0, 1.3, 0.3],
                                });
                            }
                            let g = find(cr);
                            let same = match (w, g) {
                                (Some(w), Some(g)) => (0..3).all(|i| close(g[i], w[i], 1e-6)),
                                (None, None) => true,
                                _ => false,
                            };
                            if !same {
                                let name = if cr == "ELECTRICIDAD" || cr == "GASNATURAL" { "C19.factor_source_used" } else { "C19.red_factor_used" };
                                t.violation(name, format!("{cr} grid factor used = {:?}, the decision table gives {:?}", g, w), || wit(json!({"carrier": cr})));
                            }
                        }
                        // the results are computed with those values
                        if let Out::Ok(comps) = safe::parse_components(&ctext) {
                            let stripped = want.clone().strip(&comps);
                            if let Out::Ok(ep) = safe::eval(&comps, &stripped, exp.kexp.0, exp.area.0, c.load_matching) {
                                let b = &ep.balance_m2.we.b;
                                let jb = &j["balance_m2"]["we"]["b"];
                                let got = [jb["ren"].as_f64().unwrap_or(f64::NAN), jb["nren"].as_f64().unwrap_or(f64::NAN), jb["co2"].as_f64().unwrap_or(f64::NAN)];
                                let wantv = [b.ren as f64, b.nren as f64, b.co2 as f64];
                                // two evaluations differ by the rounding of hash-ordered f32 accumulation, which is
                                // relative to the terms that cancel in each figure (delivered vs. exported), not to the figure
                                let (d, x) = (&ep.balance_m2.we.del, &ep.balance_m2.we.exp);
                                let cancel = [d.ren.abs() as f64 + x.ren.abs() as f64, d.nren.abs() as f64 + x.nren.abs() as f64, d.co2.abs() as f64 + x.co2.abs() as f64];
                                if !(0..3).all(|i| close(got[i], wantv[i], 6e-4 + 2e-6 * wantv[i].abs().max(cancel[i]))) {
                                    t.violation("C19.results_not_computed_with_effective_values", format!("reported step B energy per m2 {:?}, evaluation with the effective values gives {:?}", got, wantv), || wit(json!({})));
                                }
                                // and the plain report states them
                                if let Some(l) = res.stdout.lines().find(|l| l.starts_with("C_ep [kWh/m2.an]:")) {
                                    let nums = cli::numbers(l.split(':').nth(1).unwrap_or(""));
                                    if nums.len() != 3 || !close(nums[0], wantv[0], 0.0501) || !close(nums[1], wantv[1], 0.0501) {
                                        t.violation("C19.results_not_computed_with_effective_values", format!("report line `{l}` does not state ren {} nren {}", wantv[0], wantv[1]), || wit(json!({})));
                                    }
                                }
                                t.count("results_recomputed");
                            }
                        }
                    }
                }
            }
            None if c.shape != 0 => {
                // nothing to compute: the parameters were still validated and echoed (checked above), no result may appear
                if has_report {
                    t.violation("C19.result_without_components", "a result is printed although no energy component was given".into(), || wit(json!({})));
                }
                t.count("runs_without_components_checked");
            }
            None => t.violation("C19.json_missing", "exit 0 but no readable --json document".into(), || wit(json!({}))),
        }
        // --oc: the effective values are recorded in the metadata
        match std::fs::read_to_string(dir.join("oc.csv")) {
            Ok(oc) => {
                let meta = |key: &str| -> Option<String> { oc.lines().find_map(|l| l.strip_prefix(&format!("#META {key}:")).map(|v| v.trim().to_string())) };
                let num_ok = |key: &str, want: f32, tol: f64| meta(key).and_then(|v| v.parse::<f64>().ok()).map(|x| close(x, want as f64, tol)).unwrap_or(false);
                if !num_ok("CTE_AREAREF", exp.area.0, 0.00501) {
                    t.violation("C19.area_not_recorded", format!("saved metadata CTE_AREAREF = {:?}, effective area {}", meta("CTE_AREAREF"), exp.area.0), || wit(json!({"saved": oc})));
                }
                if !num_ok("CTE_KEXP", exp.kexp.0, 0.0501) {
                    t.violation("C19.kexp_not_recorded", format!("saved metadata CTE_KEXP = {:?}, effective k_exp {}", meta("CTE_KEXP"), exp.kexp.0), || wit(json!({"saved": oc})));
                }
                for (key, want) in [("CTE_RED1", &exp.red1), ("CTE_RED2", &exp.red2)] {
                    if let Some((v, _)) = want {
                        let ok = meta(key).and_then(|s| parse_triple(&s)).map(|g| (0..3).all(|i| close(g[i] as f64, v[i] as f64, 0.000501))).unwrap_or(false);
                        if !ok {
                            t.violation("C19.red_not_recorded", format!("saved metadata {key} = {:?}, effective value {:?}", meta(key), v), || wit(json!({"saved": oc})));
                        }
                    }
                }
                if exp.factors_origin == "usuario" || exp.factors_origin == "metadatos" {
                    if meta("CTE_LOCALIZACION").as_deref() != Some(exp.factors_param.as_str()) {
                        t.violation("C19.location_not_recorded", format!("saved metadata CTE_LOCALIZACION = {:?}, effective location {}", meta("CTE_LOCALIZACION"), exp.factors_param), || wit(json!({"saved": oc})));
                    }
                }
                t.count("saved_metadata_checked");
            }
            Err(_) if c.shape != 0 => {}
            Err(_) => t.violation("C19.oc_missing", "exit 0 but the --oc file was not written".into(), || wit(json!({}))),
        }
        t.count("accepted_configurations_checked");
        t.count(&format!("origin.area.{}", exp.area.1));
        t.count(&format!("origin.kexp.{}", exp.kexp.1));
        t.count(&format!("origin.factors.{}", exp.factors_origin));
        for (n, r) in [("red1", &exp.red1), ("red2", &exp.red2)] {
            t.count(&format!("origin.{n}.{}", r.map(|x| x.1).unwrap_or(if c.ffile == Some(true) && n == "red1" { "archivo" } else { "predefinido" })));
        }
    }
    // coverage bookkeeping: which origin pattern was exercised
    let pat = |o: &Given, m: &Given| format!("{}{}", match o { Given::Absent => "-", Given::Valid(_) => "V", Given::Invalid(_) => "X" }, match m { Given::Absent => "-", Given::Valid(_) => "v", Given::Invalid(_) => "x" });
    t.set_insert("origin_patterns", format!("a:{} k:{} r1:{} r2:{} loc:{}{}{}", pat(&c.area_opt, &c.area_meta), pat(&c.kexp_opt, &c.kexp_meta), pat(&c.red1_opt, &c.red1_meta), pat(&c.red2_opt, &c.red2_meta), if c.ffile.is_some() { "F" } else { "-" }, if c.loc_opt.is_some() { "L" } else { "-" }, match &c.loc_meta { Given::Absent => "-", Given::Valid(_) => "v", Given::Invalid(_) => "x" }));
    t.nontrivial(crate::spec::fnv(format!("{:?}", c).as_bytes()));
    t.sample(|| json!({"config": c, "argv": args_t, "exit": code, "expected_exit_codes": exp.codes}));
    let _ = std::fs::remove_dir_all(&dir);
}

pub fn run(ctx: &Ctx) -> Report {
    let total = ctx.cases(3_000, 100_000);
    let tally = run_sharded(ctx, total, |_idx, r, t| {
        let c = gen_config(r);
        check_config(ctx, &c, t);
    });
    let patterns = tally.sets.get("origin_patterns").map(|s| s.len() as u64).unwrap_or(0);
    let quotas = vec![
        ("accepted_configurations_checked".to_string(), tally.get("accepted_configurations_checked"), 150),
        ("refusals_checked".to_string(), tally.get("refusals_checked"), 500),
        ("results_recomputed".to_string(), tally.get("results_recomputed"), 150),
        ("distinct_origin_patterns".to_string(), patterns, 300),
        ("exit_64".to_string(), tally.get("exit_64"), 5),
        ("runs_without_components_checked".to_string(), tally.get("runs_without_components_checked"), 5),
        ("origin.area.usuario".to_string(), tally.get("origin.area.usuario"), 20),
        ("origin.area.metadatos".to_string(), tally.get("origin.area.metadatos"), 20),
        ("origin.area.predefinido".to_string(), tally.get("origin.area.predefinido"), 20),
        ("origin.kexp.usuario".to_string(), tally.get("origin.kexp.usuario"), 20),
        ("origin.kexp.metadatos".to_string(), tally.get("origin.kexp.metadatos"), 20),
        ("origin.kexp.predefinido".to_string(), tally.get("origin.kexp.predefinido"), 20),
        ("origin.factors.archivo".to_string(), tally.get("origin.factors.archivo"), 20),
        ("origin.factors.usuario".to_string(), tally.get("origin.factors.usuario"), 20),
        ("origin.factors.metadatos".to_string(), tally.get("origin.factors.metadatos"), 20),
        ("origin.red1.usuario".to_string(), tally.get("origin.red1.usuario"), 10),
        ("origin.red1.metadatos".to_string(), tally.get("origin.red1.metadatos"), 10),
        ("origin.red1.archivo".to_string(), tally.get("origin.red1.archivo"), 5),
        ("origin.red1.predefinido".to_string(), tally.get("origin.red1.predefinido"), 10),
    ];
    Report {
        tally,
        rule: "random sample of the product {option absent / valid / invalid} x {metadata absent / valid / invalid} for area, k_exp, RED1, RED2 and {-f file with / without RED1 line, -l, CTE_LOCALIZACION valid / invalid / absent}, value classes in range, boundary (0, 1, 0.001, 0.0011), out of range and non-numeric text, on a fixed four-carrier building that exports PV (so every parameter changes the result); each configuration is run through the real binary with --json and --oc and compared with a decision table written from the property text: exit code, the three echo lines, values in the JSON, factors used, metadata saved, and the results recomputed in-process with the effective values; non-trivial = every configuration (each is a distinct point of the table); distinct = distinct configuration; second session: values also in exponent / signed / bare-dot notation, metadata in the legacy spelling, written twice, and placed anywhere in the file, -v / -vv / -v -v -v, runs without components (no -c, metadata only, DEMANDA only), user RED values equal to the built-in default, RED factors compared with the decision table directly".into(),
        assumptions: vec![
            "an invalid metadata value next to a valid option may be refused (65) or ignored (0): both accepted".into(),
            "negative option values are passed as --opt=value so that the option parser does not take them for flags".into(),
            "the literals NaN / inf are outside the claim".into(),
        ],
        quotas,
    }
}

pub fn replay(ctx: &Ctx, _monitor: &str, w: &Value) -> Option<Report> {
    let c: Config = serde_json::from_value(w["config"].clone()).ok()?;
    let mut t = Tally::default();
    check_config(ctx, &c, &mut t);
    let _ = PROP;
    Some(Report { tally: t, rule: "replay".into(), assumptions: vec![], quotas: vec![] })
}
