//! C02 — every reported quantity equals the independent f64 evaluation of EN ISO 52000-1.

use super::common::*;
use crate::case::{gen_case, Case, FacChoice};
use crate::flat;
use crate::gen::{GenOpts, Tri};
use crate::refmodel::{RefErr, Tol};
use crate::tally::Tally;
use crate::{run_sharded, Ctx, Report};
use serde_json::{json, Value};

const PROP: &str = "C02";

/// result fields that C02 does not compare, with the reason (everything else is compared)
pub fn not_compared(p: &str) -> bool {
    // perimeter ratios are not defined by the equations the property lists; C13 owns them
    p == "rer_nrb" || p == "rer_onst"
}

pub fn check_case(_ctx: &Ctx, case: &Case, t: &mut Tally, completeness: bool) {
    let Some((comps, fac)) = prepare(PROP, case, t) else { return };
    // history: one case in four is preceded, in this thread, by a sibling building with the same carrier totals at every
    // step and another split between two services - the equations know no state, so nothing of it may show
    if case.sub_seed % 4 == 1 {
        if let Some(sib) = case.spec.sibling_with_swapped_services() {
            if let crate::safe::Out::Ok(cs) = crate::safe::parse_components(&sib.to_text()) {
                let _ = crate::safe::eval(&cs, &fac, case.k, case.area, case.lm);
                t.count("history.sibling_building_evaluated_first");
            }
        }
    }
    t.evaluations += 1;
    let got = crate::safe::eval(&comps, &fac, case.k, case.area, case.lm);
    let want = ref_eval_parsed(&comps, &fac, case.k, case.area, case.lm);
    let ep = match (got, want) {
        (crate::safe::Out::Panic(m), _) => {
            t.violation("evaluation_panicked.energy_performance", format!("energy_performance panicked: {m}"), || case.witness());
            return;
        }
        (crate::safe::Out::Err(v, m), Ok(_)) => {
            t.violation("C02.error_where_equations_give_a_result", format!("library returned {v} ({m}) but the equations can be evaluated for these inputs"), || case.witness());
            return;
        }
        (crate::safe::Out::Err(v, _), Err(e)) => {
            let same = matches!((v.as_str(), &e), ("MissingFactor", RefErr::MissingFactor(_)) | ("WrongInput", RefErr::CogenWithoutInput) | ("WrongInput", RefErr::AreaTooSmall));
            t.count(&format!("both_reject.{v}"));
            if !same {
                t.count("both_reject.different_reason");
            }
            return;
        }
        (crate::safe::Out::Ok(_), Err(e)) => {
            t.violation("C02.result_where_equations_cannot_be_evaluated", format!("library returned a result but the reference evaluation fails with {e:?}"), || case.witness());
            return;
        }
        (crate::safe::Out::Ok(ep), Ok(w)) => (ep, w),
    };
    let (ep, want) = ep;
    if completeness {
        let gap = flat::completeness_gap(&ep);
        if !gap.is_empty() {
            t.harness_error(format!("result fields unknown to the monitor's field list (or vice versa): {:?}", &gap[..gap.len().min(8)]));
        }
        t.count("completeness_self_checks");
    }
    let fl = flat(&ep);
    let tol = Tol::for_steps(case.spec.n);
    let (diffs, worst, compared) = compare(&fl, &want, &tol, &not_compared);
    t.add("fields_compared", compared);
    t.max("largest_normalised_discrepancy_among_passing_fields", worst);
    if !diffs.is_empty() {
        let d0 = diffs[0].clone();
        let group = d0.path.split('.').filter(|s| !s.chars().all(|c| c.is_ascii_uppercase() || c == '_' || c.is_ascii_digit())).collect::<Vec<_>>().join(".");
        let group = group.split('[').next().unwrap_or("").to_string();
        t.violation(
            &format!("C02.field_differs.{}", group),
            format!("{} field(s) differ from the independent evaluation: {}", diffs.len(), describe(&diffs, 4)),
            || {
                let mut w = case.witness();
                w["first_difference"] = json!({"path": d0.path, "got": d0.got, "expected": d0.want.map(|v| v.v), "scale": d0.want.map(|v| v.s)});
                w
            },
        );
    }
    // features seen (evidence)
    let exp_nepus = get(&fl, "balance.exp.nepus");
    let exp_grid = get(&fl, "balance.exp.grid");
    if case.spec.has_cogen() {
        t.count("feature.cogeneration");
        let fuels = case.spec.lines.iter().filter(|l| matches!(l, crate::spec::Line::Used { srv, .. } if srv == "COGEN")).count();
        if fuels > 1 {
            t.count("feature.cogeneration_two_fuels");
        }
        if get(&fl, "balance_cr.ELECTRICIDAD.exp.by_src_an.EL_COGEN") > 0.0 {
            t.count("feature.cogenerated_electricity_exported");
        }
    }
    if exp_nepus > 0.0 {
        t.count("feature.export_to_nepb");
    }
    if exp_grid > 0.0 {
        t.count("feature.export_to_grid");
    }
    if case.lm {
        t.count("feature.load_matching");
    }
    if case.k > 0.0 && case.k < 1.0 {
        t.count("feature.interior_k_exp");
    }
    match &case.fac {
        FacChoice::User { text, .. } => {
            t.count("feature.user_factor_file");
            if text.contains("COGEN") {
                t.count("feature.user_cogen_factors");
            }
        }
        FacChoice::Loc { loc, .. } => t.count(&format!("feature.loc.{loc}")),
    }
    if case.spec.n >= 365 {
        t.count("feature.long_series");
    }
    // non-trivial: at least two carriers, and exported energy or cogeneration (factor lookups that matter)
    if carriers_of(&fl).len() >= 2 && (exp_nepus + exp_grid > 0.0 || case.spec.has_cogen()) {
        t.nontrivial(case.hash());
        t.sample(|| {
            let mut s = short_case(case);
            s["fields_compared"] = json!(compared);
            s["we_b"] = json!([get(&fl, "balance.we.b.ren"), get(&fl, "balance.we.b.nren"), get(&fl, "balance.we.b.co2")]);
            s
        });
    }
}

pub fn run(ctx: &Ctx) -> Report {
    let total = ctx.cases(25_000, 1_500_000);
    let mut o = GenOpts::default();
    o.long_steps = ctx.thorough();
    let tally = run_sharded(ctx, total, |idx, r, t| {
        let mut o = o.clone();
        if r.chance(1, 3) {
            o.cogen = Tri::Always;
        }
        let hourly = idx % 6000 == 11;
        if hourly {
            // a few hourly years (plain, leap, half-hourly) with load matching: the equations are per step whatever the step is
            o.steps = Some(*r.pick(&[8760usize, 8784, 17520]));
            o.pv = Tri::Always;
        }
        let mut case = gen_case(r, &o, 45);
        if hourly {
            case.lm = true;
            t.count("feature.hourly_series_with_load_matching");
        }
        if r.chance(1, 40) {
            crate::gen::without_epb_use(&mut case.spec, r);
        }
        check_case(ctx, &case, t, idx < 200);
    });
    let quotas = vec![
        ("feature.cogeneration".to_string(), tally.get("feature.cogeneration"), 200),
        ("feature.hourly_series_with_load_matching".to_string(), tally.get("feature.hourly_series_with_load_matching"), 1),
        ("feature.cogenerated_electricity_exported".to_string(), tally.get("feature.cogenerated_electricity_exported"), 50),
        ("feature.export_to_nepb".to_string(), tally.get("feature.export_to_nepb"), 100),
        ("feature.user_factor_file".to_string(), tally.get("feature.user_factor_file"), 200),
        ("feature.user_cogen_factors".to_string(), tally.get("feature.user_cogen_factors"), 20),
        ("feature.load_matching".to_string(), tally.get("feature.load_matching"), 200),
        ("feature.interior_k_exp".to_string(), tally.get("feature.interior_k_exp"), 200),
        ("completeness_self_checks".to_string(), tally.get("completeness_self_checks"), 10),
    ];
    Report {
        tally,
        rule: "generated buildings x {four regulatory locations with/without user RED1/RED2, user factor files in which step, destination and source factors all differ (incl. user COGEN lines)} x k_exp in {0, 1, 0.001, interior} x area in [0.0011, 1e5] x load matching on/off; every numeric field of the returned EnergyPerformance except rer_nrb / rer_onst is compared with the f64 reference within atol + rtol * (sum of magnitudes of the terms forming it); non-trivial = at least two carriers and (exported energy or cogeneration); distinct = distinct (components text, factors, k_exp, area, mode)".into(),
        assumptions: vec![
            "the reference model (refmodel.rs) is the independent reading of EN ISO 52000-1 eqs (2),(9)-(14),(20)-(28),(32) under the documented assumptions".into(),
            "tolerance atol = 1e-4, rtol = 2e-5 * (1 + steps / 500) relative to the cancellation scale of each field".into(),
            "rer_nrb and rer_onst are not pinned by the equations (C13 checks them)".into(),
        ],
        quotas,
    }
}

pub fn replay(ctx: &Ctx, _monitor: &str, w: &Value) -> Option<Report> {
    let case: Case = serde_json::from_value(w["case"].clone()).ok()?;
    let mut t = Tally::default();
    check_case(ctx, &case, &mut t, true);
    Some(Report { tally: t, rule: "replay".into(), assumptions: vec![], quotas: vec![] })
}
