//! C11 — results scale linearly with energy and inversely with area.

use super::common::*;
use crate::case::{gen_case, Case};
use crate::gen::{Class, GenOpts, Tri};
use crate::refmodel::Tol;
use crate::rng::Rng;
use crate::safe::{self, Out};
use crate::tally::Tally;
use crate::{run_sharded, Ctx, Report};
use cteepbd::cte;
use serde_json::{json, Value};

const PROP: &str = "C11";

/// fields that are ratios (unchanged by scaling the energy)
fn is_ratio(p: &str) -> bool {
    p == "rer" || p == "rer_nrb" || p == "rer_onst" || p == "k_exp" || p == "arearef" || p.contains(".f_match[")
}

pub fn check_case(ctx: &Ctx, case: &Case, with_cli: bool, t: &mut Tally) {
    let Some((comps, fac)) = prepare(PROP, case, t) else { return };
    let Some(ep) = eval(PROP, case, &comps, &fac, case.k, case.area, case.lm, t) else { return };
    let base = flat(&ep);
    let Ok(rf) = ref_eval_parsed(&comps, &fac, case.k, case.area, case.lm) else {
        t.count("reference_error");
        return;
    };
    let acs0 = safe::guard(|| cte::fraccion_renovable_acs_nrb(&ep));
    let mut r = Rng::new(case.sub_seed);
    let minv = case.spec.min_nonzero();
    let maxv = case.spec.max_abs();
    // scale factors keeping every value 0 or >= 0.01 kWh (the property's domain) and below 1e7 (1e10 for powers of two)
    let mut cands: Vec<(f32, bool)> = vec![];
    for j in [-3i32, -2, -1, 1, 2, 3, 4, 5, 6, 7, 8, 9, 10, 12, 14, 17, 20] {
        cands.push((2f32.powi(j), true));
    }
    for c in [3.0f32, 0.1, 1000.0, 7.5, 0.3, 30000.0] {
        cands.push((c, false));
    }
    // (powers of two are exact in f32 whatever the magnitude: they may take the annual sums beyond 2^24 kWh, where
    // one f32 unit of rounding is a whole kWh and any absolute tolerance of the library is overtaken)
    cands.retain(|(c, p2)| minv * c >= 0.01 && maxv * c < if *p2 { 1e10 } else { 1e7 });
    if cands.is_empty() {
        t.count("no_admissible_scale_factor");
        return;
    }
    let picks = [cands[r.usize(cands.len())], cands[r.usize(cands.len())]];
    // per-carrier results are bitwise reproducible unless auxiliaries are regenerated (their order varies)
    let deterministic_per_carrier = per_carrier_deterministic(&case.spec);
    let tol = Tol::for_steps(case.spec.n);
    for (c, pow2) in picks {
        let s2 = case.spec.scaled(c);
        let mut c2 = case.clone();
        c2.spec = s2;
        let wit = |extra: Value| {
            let mut w = case.witness();
            w["scale_factor"] = json!(c);
            w["observed"] = extra;
            w
        };
        let Some(ep2) = prepare(PROP, &c2, t).and_then(|(cc, ff)| eval(PROP, &c2, &cc, &ff, case.k, case.area, case.lm, t)) else {
            t.violation("C11.outcome_changes_with_scale", format!("the building evaluates, the building scaled by {c} does not"), || wit(json!({})));
            continue;
        };
        let f2 = flat(&ep2);
        let cf = c as f64;
        let mut bad = 0;
        for (p, v) in &base {
            let Some(v2) = value_or_zero(&f2, p) else {
                if *v != 0.0 {
                    t.violation("C11.field_disappears_with_scale", format!("{p} is missing for the building scaled by {c}"), || wit(json!({"path": p})));
                }
                continue;
            };
            let v2 = &v2;
            let ratio = is_ratio(p);
            let want = if ratio { *v } else { *v * cf };
            let exact = pow2 && (p.starts_with("balance_cr.") && deterministic_per_carrier || p == "k_exp" || p == "arearef");
            let ok = if exact {
                // multiplying by a power of two commutes with every f32 operation of the balance
                (*v2 as f32).to_bits() == (want as f32).to_bits() || (*v2 == 0.0 && want == 0.0)
            } else {
                let s = scale_of(p, &rf, *v) * if ratio { 1.0 } else { cf };
                let band = if pow2 { 1e-9 * cf.max(1.0) + 2e-6 * s } else { tol.atol * cf.max(1.0) + tol.rtol * s };
                (v2 - want).abs() <= band || (v2.is_nan() && want.is_nan())
            };
            if !ok {
                bad += 1;
                if bad <= 2 {
                    let what = if ratio { "ratio changes" } else { "result is not multiplied by c" };
                    t.violation(
                        &format!("C11.{}", if ratio { "ratio_changes_with_scale" } else { "not_linear_in_energy" }),
                        format!("{what}: {p} = {v} for the building, {v2} when every energy is multiplied by {c} (expected {want})"),
                        || wit(json!({"path": p, "base": v, "scaled": v2, "expected": want, "power_of_two": pow2})),
                    );
                }
            }
            t.count(if exact { "fields_compared_bitwise" } else { "fields_compared_with_tolerance" });
        }
        // DHW renewable fraction unchanged
        let acs2 = safe::guard(|| cte::fraccion_renovable_acs_nrb(&ep2));
        let (_, dhw_band) = dhw_noise_band(&case.spec);
        match (&acs0, &acs2) {
            _ if !dhw_guards_clear(&case.spec, c) => t.count("dhw_fraction_skipped_at_the_0.01_kWh_guard"),
            (Out::Ok(a), Out::Ok(b)) => {
                t.count("dhw_fraction_pairs_compared");
                if !(((a - b).abs() as f64) <= 2e-5 * (a.abs() as f64).max(1.0) + dhw_band || (a.is_nan() && b.is_nan())) {
                    t.violation("C11.dhw_fraction_changes_with_scale", format!("renewable DHW fraction {a} becomes {b} when every energy is multiplied by {c}"), || wit(json!({})));
                }
            }
            (Out::Err(..), Out::Err(..)) => {}
            (a, b) => t.violation("C11.dhw_fraction_changes_with_scale", format!("renewable DHW fraction: {} for the building, {} when scaled by {c}", a.describe(), b.describe()), || wit(json!({}))),
        }
        t.count(if pow2 { "scalings.power_of_two" } else { "scalings.other" });
        t.set_insert("scale_factors", format!("{c}"));
    }
    // area: c x area divides the per-m2 figures by c and changes nothing else
    let ca = *r.pick(&[2.0f32, 4.0, 0.5, 3.0, 10.0, 0.1, 1.0e6, 1.0e9]);
    let area2 = case.area * ca;
    if area2 > 0.0011 {
        if let Some(ep2) = eval(PROP, case, &comps, &fac, case.k, area2, case.lm, t) {
            let f2 = flat(&ep2);
            for (p, v) in &base {
                let Some(v2) = f2.get(p) else { continue };
                if p == "arearef" {
                    continue;
                }
                let ok = if p.starts_with("balance_m2.") {
                    let want = v / ca as f64;
                    let s = rf.get(p).map(|x| x.s).unwrap_or(v.abs()) / ca as f64;
                    (v2 - want).abs() <= 1e-12 + 2e-6 * s.max(want.abs())
                } else {
                    same_across_evals(p, *v, *v2, &rf)
                };
                if !ok {
                    t.violation("C11.area_scaling", format!("{p}: {v} at area {} and {v2} at area {area2}", case.area), || {
                        let mut w = case.witness();
                        w["area2"] = json!(area2);
                        w
                    });
                    break;
                }
            }
            // ... nor does the DHW renewable fraction depend on the area
            let acs2 = safe::guard(|| cte::fraccion_renovable_acs_nrb(&ep2));
            match (&acs0, &acs2) {
                (Out::Ok(a), Out::Ok(b)) => {
                    if !(((a - b).abs() as f64) <= 2e-6 * (a.abs() as f64).max(1.0) || (a.is_nan() && b.is_nan())) {
                        t.violation("C11.dhw_fraction_changes_with_area", format!("renewable DHW fraction {a} at area {} becomes {b} at area {area2}", case.area), || case.witness());
                    }
                    t.count("dhw_fraction_area_pairs_compared");
                }
                (Out::Err(..), Out::Err(..)) => {}
                (a, b) => t.violation("C11.dhw_fraction_changes_with_area", format!("renewable DHW fraction: {} at area {}, {} at area {area2}", a.describe(), case.area, b.describe()), || case.witness()),
            }
            t.count("area_scalings_checked");
        }
    }
    if with_cli {
        if let Some(bin) = &ctx.cli_debug {
            cli_area_pair(bin, case, &mut r, t);
        }
    }
    if get(&base, "balance.prod.an") > 0.0 && carriers_of(&base).len() >= 2 {
        t.nontrivial(case.hash());
        t.sample(|| {
            let mut s = short_case(case);
            s["scale_factors"] = json!([picks[0].0, picks[1].0]);
            s["area_factor"] = json!(ca);
            s
        });
    }
}

/// the area half of the property at the program's boundary: cteepbd -a A and -a c*A on the same file
fn cli_area_pair(bin: &std::path::Path, case: &Case, r: &mut Rng, t: &mut Tally) {
    use crate::case::FacChoice;
    use crate::cli;
    let dir = cli::scratch_dir("c11");
    let cpath = dir.join("c.csv");
    let _ = std::fs::write(&cpath, case.spec.to_text());
    // areas that are not multiples of 0.01 m2
    let a1 = *r.pick(&[2.345f32, 0.3125, 12.3456, 0.0977, 150.505, 0.004]);
    let c = *r.pick(&[2.0f32, 0.5, 8.0, 0.125, 3.0]);
    let a2 = a1 * c;
    let mut base: Vec<String> = vec!["-c".into(), cpath.display().to_string(), "-k".into(), format!("{}", case.k)];
    match &case.fac {
        FacChoice::Loc { loc, .. } => {
            base.push("-l".into());
            base.push(loc.clone());
        }
        FacChoice::User { text, .. } => {
            let fpath = dir.join("f.csv");
            let _ = std::fs::write(&fpath, text);
            base.push("-f".into());
            base.push(fpath.display().to_string());
        }
    }
    let mut outs = vec![];
    for (i, a) in [a1, a2].iter().enumerate() {
        let mut args = base.clone();
        let j = dir.join(format!("o{i}.json"));
        args.extend(["-a".to_string(), format!("{a}"), "--json".to_string(), j.display().to_string()]);
        let res = cli::run(bin, &args, 20_000);
        t.evaluations += 1;
        let js = std::fs::read_to_string(&j).ok().and_then(|s| serde_json::from_str::<Value>(&s).ok());
        outs.push((res, js, args));
    }
    let wit = |what: String| {
        let mut w = case.witness();
        w["areas"] = json!([a1, a2]);
        w["argv"] = json!(outs[0].2);
        w["what"] = json!(what);
        w
    };
    match (&outs[0], &outs[1]) {
        ((r1, Some(j1), _), (r2, Some(j2), _)) if r1.code == Some(0) && r2.code == Some(0) => {
            let (g1, g2) = (j1["arearef"].as_f64().unwrap_or(f64::NAN), j2["arearef"].as_f64().unwrap_or(f64::NAN));
            if (g1 - a1 as f64).abs() > 1e-6 * a1 as f64 || (g2 - a2 as f64).abs() > 1e-6 * a2 as f64 {
                t.violation("C11.cli_area_not_the_one_given", format!("cteepbd -a {a1} / -a {a2} computed with areas {g1} / {g2}"), || wit("arearef".into()));
            }
            for key in ["epus", "nepus"] {
                let (v1, v2) = (j1["balance_m2"]["used"][key].as_f64().unwrap_or(f64::NAN), j2["balance_m2"]["used"][key].as_f64().unwrap_or(f64::NAN));
                let abs = j1["balance"]["used"][key].as_f64().unwrap_or(f64::NAN);
                if v1 != 0.0 && !((v1 / v2 - c as f64).abs() <= 2e-5 * c as f64) {
                    t.violation("C11.cli_per_m2_not_inverse_in_area", format!("per-m2 {key} is {v1} at {a1} m2 and {v2} at {a2} m2 (absolute {abs}); the ratio should be {c}"), || wit(key.to_string()));
                }
                if !((v1 - abs / a1 as f64).abs() <= 2e-6 * v1.abs() + 1e-12) {
                    t.violation("C11.cli_per_m2_not_inverse_in_area", format!("per-m2 {key} = {v1} but {abs} / {a1} = {}", abs / a1 as f64), || wit(key.to_string()));
                }
            }
            // nothing else changes
            for path in [["balance", "we", "b"], ["balance", "we", "a"]] {
                let (x, y) = (&j1[path[0]][path[1]][path[2]], &j2[path[0]][path[1]][path[2]]);
                if let Some(d) = super::c10::json_diff(x, y, "", &|_| 0.0) {
                    // building totals of two runs differ by hash-order rounding only: relative check
                    let big = x["nren"].as_f64().unwrap_or(0.0).abs().max(x["ren"].as_f64().unwrap_or(0.0).abs());
                    if big < 1e5 {
                        t.violation("C11.cli_area_changes_absolute_results", format!("absolute results change with the area: {d}"), || wit("absolute".into()));
                    }
                }
            }
            t.count("cli_area_pairs_checked");
        }
        ((r1, _, _), (r2, _, _)) => {
            if r1.code != r2.code && !(a1.min(a2) <= 0.0011) {
                t.violation("C11.cli_outcome_changes_with_area", format!("cteepbd ends with {:?} at {a1} m2 and {:?} at {a2} m2", r1.code, r2.code), || wit("outcome".into()));
            } else {
                t.count("cli_area_pairs_rejected");
            }
        }
    }
    let _ = std::fs::remove_dir_all(&dir);
}

fn big_aux_biomass_dhw(r: &mut Rng, like: &Case) -> Case {
    use crate::spec::{Line, Spec};
    let n = 12;
    let dec = |r: &mut Rng, lo: u64, hi: u64| -> Vec<f32> { (0..n).map(|_| (lo * 100 + r.below((hi - lo) * 100)) as f32 / 100.0).collect() };
    let b = dec(r, 2000, 6000);
    let d = dec(r, 500, 1500);
    let out: Vec<f32> = b.iter().map(|x| (x * 0.75 * 100.0).round() / 100.0).collect();
    // the declared demand is a tenth below what the systems say they deliver (declared outputs are often gross figures):
    // the two ways of attributing DHW demand to the biomass - by difference, or from its declared output - then differ
    let dem: Vec<f32> = out.iter().zip(d.iter()).map(|(a, b)| ((a / 1.1 + b) * 100.0).round() / 100.0).collect();
    let bio = *r.pick(&["BIOMASA", "BIOMASADENSIFICADA"]);
    let lines = vec![
        Line::Used { id: 5, srv: "ACS".into(), cr: bio.into(), v: b, comment: String::new() },
        Line::Out { id: 5, srv: "ACS".into(), v: out, comment: String::new() },
        Line::Aux { id: 5, v: dec(r, 300, 900), comment: String::new() },
        Line::Used { id: 4, srv: "ACS".into(), cr: "RED1".into(), v: d, comment: String::new() },
        Line::Aux { id: 4, v: dec(r, 100, 500), comment: String::new() },
        Line::Used { id: 0, srv: "ILU".into(), cr: "ELECTRICIDAD".into(), v: dec(r, 50, 400), comment: String::new() },
        Line::Need { srv: "ACS".into(), v: dem },
    ];
    let mut c = like.clone();
    c.spec = Spec { n, meta: vec![], lines };
    c.fac = crate::case::gen_loc(r);
    c
}

pub fn run(ctx: &Ctx) -> Report {
    let total = ctx.cases(10_000, 400_000);
    let cli_every = if ctx.thorough() { 150 } else { 80 };
    let tally = run_sharded(ctx, total, |idx, r, t| {
        let mut o = GenOpts::default();
        o.vmul = *r.pick(&[1i64, 8, 8, 16]);
        o.demands = Tri::Always;
        o.long_steps = ctx.thorough();
        if r.chance(1, 2) {
            o.class = Some(Class::Dyadic);
        }
        let mut case = gen_case(r, &o, 25);
        if r.chance(1, 4) {
            // a consistent DHW scenario (auxiliaries, biomass, PV shared, ...): the DHW fraction is meaningful there
            if let Some(sc) = super::c15::gen_scenario(r) {
                case = sc.case;
                t.count("cases_from_dhw_scenarios");
            }
        }
        if r.chance(1, 50) {
            // a biomass DHW plant with large auxiliaries on two DHW systems and no other DHW electricity: whether
            // electricity counts as a DHW carrier hangs on a tolerance against an f32 residue of the auxiliary sums, which
            // must stay relative when everything is scaled up (annual auxiliaries reach 2^23 kWh at c = 2^10)
            case = big_aux_biomass_dhw(r, &case);
            t.count("cases_from_big_auxiliary_dhw_plant");
        }
        check_case(ctx, &case, idx % cli_every == 0, t);
    });
    let mut quotas = vec![
        ("scalings.power_of_two".to_string(), tally.get("scalings.power_of_two"), 2000),
        ("scalings.other".to_string(), tally.get("scalings.other"), 500),
        ("fields_compared_bitwise".to_string(), tally.get("fields_compared_bitwise"), 100_000),
        ("dhw_fraction_pairs_compared".to_string(), tally.get("dhw_fraction_pairs_compared"), 300),
        ("area_scalings_checked".to_string(), tally.get("area_scalings_checked"), 1000),
    ];
    if ctx.cli_debug.is_some() {
        quotas.push(("cli_area_pairs_checked".to_string(), tally.get("cli_area_pairs_checked"), 30));
    }
    Report {
        tally,
        rule: "every declared value of a generated building is multiplied by c (powers of two from 2^-3 to 2^10: per-carrier results must be exactly c times, bitwise; 3, 0.1, 0.3, 7.5, 1000: within tolerance), keeping values 0 or >= 0.01 kWh and below 1e7; RER values, load-matching factors and the DHW renewable fraction must not change; the reference area is multiplied by another factor and only the per-m2 figures may change (in the library, and every ~80th case through the real binary with areas that are not multiples of 0.01 m2); non-trivial = at least two carriers and some production; distinct = distinct (components text, factors, k_exp, area, mode)".into(),
        assumptions: vec![
            "buildings with regenerated auxiliaries and building totals are accumulated in hash order: compared within 2e-6 of the cancellation scale instead of bitwise".into(),
            "the domain excludes scalings that push a non-zero value below 0.01 kWh (absolute guards 1e-3 / 0.01 of the library stay on the same side)".into(),
        ],
        quotas,
    }
}

pub fn replay(ctx: &Ctx, _monitor: &str, w: &Value) -> Option<Report> {
    let case: Case = serde_json::from_value(w["case"].clone()).ok()?;
    let mut t = Tally::default();
    check_case(ctx, &case, ctx.cli_debug.is_some(), &mut t);
    Some(Report { tally: t, rule: "replay".into(), assumptions: vec![], quotas: vec![] })
}
