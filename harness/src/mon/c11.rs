//! C11 — results scale linearly with energy and inversely with area.

use super::common::*;
use crate::case::{gen_case, Case};
use crate::gen::{Class, GenOpts, Tri};
use crate::refmodel::Tol;
use crate::rng::Rng;
use crate::safe::{self, Out};
use crate::tally::Tally;
use crate::{run_sharded, Ctx, Report};
use cteepbd::cte;
use serde_json::{json, Value};

const PROP: &str = "C11";

/// fields that are ratios (unchanged by scaling the energy)
fn is_ratio(p: &str) -> bool {
    p == "rer" || p == "rer_nrb" || p == "rer_onst" || p == "k_exp" || p == "arearef" || p.contains(".f_match[")
}

pub fn check_case(_ctx: &Ctx, case: &Case, t: &mut Tally) {
    let Some((comps, fac)) = prepare(PROP, case, t) else { return };
    let Some(ep) = eval(PROP, case, &comps, &fac, case.k, case.area, case.lm, t) else { return };
    let base = flat(&ep);
    let Ok(rf) = ref_eval_parsed(&comps, &fac, case.k, case.area, case.lm) else {
        t.count("reference_error");
        return;
    };
    let acs0 = safe::guard(|| cte::fraccion_renovable_acs_nrb(&ep));
    let mut r = Rng::new(case.sub_seed);
    let minv = case.spec.min_nonzero();
    let maxv = case.spec.max_abs();
    // scale factors keeping every value 0 or >= 0.01 kWh and below 1e7 (the property's domain)
    let mut cands: Vec<(f32, bool)> = vec![];
    for j in -3i32..=10 {
        cands.push((2f32.powi(j), true));
    }
    for c in [3.0f32, 0.1, 1000.0, 7.5, 0.3] {
        cands.push((c, false));
    }
    cands.retain(|(c, _)| minv * c >= 0.01 && maxv * c < 1e7);
    if cands.is_empty() {
        t.count("no_admissible_scale_factor");
        return;
    }
    let picks = [cands[r.usize(cands.len())], cands[r.usize(cands.len())]];
    // per-carrier results are bitwise reproducible unless auxiliaries are regenerated (their order varies)
    let deterministic_per_carrier = !case.spec.has_aux();
    let tol = Tol::for_steps(case.spec.n);
    for (c, pow2) in picks {
        let s2 = case.spec.scaled(c);
        let mut c2 = case.clone();
        c2.spec = s2;
        let wit = |extra: Value| {
            let mut w = case.witness();
            w["scale_factor"] = json!(c);
            w["observed"] = extra;
            w
        };
        let Some(ep2) = prepare(PROP, &c2, t).and_then(|(cc, ff)| eval(PROP, &c2, &cc, &ff, case.k, case.area, case.lm, t)) else {
            t.violation("C11.outcome_changes_with_scale", format!("the building evaluates, the building scaled by {c} does not"), || wit(json!({})));
            continue;
        };
        let f2 = flat(&ep2);
        let cf = c as f64;
        let mut bad = 0;
        for (p, v) in &base {
            let Some(v2) = value_or_zero(&f2, p) else {
                if *v != 0.0 {
                    t.violation("C11.field_disappears_with_scale", format!("{p} is missing for the building scaled by {c}"), || wit(json!({"path": p})));
                }
                continue;
            };
            let v2 = &v2;
            let ratio = is_ratio(p);
            let want = if ratio { *v } else { *v * cf };
            let exact = pow2 && (p.starts_with("balance_cr.") && deterministic_per_carrier || p == "k_exp" || p == "arearef");
            let ok = if exact {
                // multiplying by a power of two commutes with every f32 operation of the balance
                (*v2 as f32).to_bits() == (want as f32).to_bits() || (*v2 == 0.0 && want == 0.0)
            } else {
                let s = scale_of(p, &rf, *v) * if ratio { 1.0 } else { cf };
                let band = if pow2 { 1e-9 * cf.max(1.0) + 2e-6 * s } else { tol.atol * cf.max(1.0) + tol.rtol * s };
                (v2 - want).abs() <= band || (v2.is_nan() && want.is_nan())
            };
            if !ok {
                bad += 1;
                if bad <= 2 {
                    let what = if ratio { "ratio changes" } else { "result is not multiplied by c" };
                    t.violation(
                        &format!("C11.{}", if ratio { "ratio_changes_with_scale" } else { "not_linear_in_energy" }),
                        format!("{what}: {p} = {v} for the building, {v2} when every energy is multiplied by {c} (expected {want})"),
                        || wit(json!({"path": p, "base": v, "scaled": v2, "expected": want, "power_of_two": pow2})),
                    );
                }
            }
            t.count(if exact { "fields_compared_bitwise" } else { "fields_compared_with_tolerance" });
        }
        // DHW renewable fraction unchanged
        let acs2 = safe::guard(|| cte::fraccion_renovable_acs_nrb(&ep2));
        let (_, dhw_band) = dhw_noise_band(&case.spec);
        match (&acs0, &acs2) {
            _ if !dhw_guards_clear(&case.spec, c) => t.count("dhw_fraction_skipped_at_the_0.01_kWh_guard"),
            (Out::Ok(a), Out::Ok(b)) => {
                t.count("dhw_fraction_pairs_compared");
                if !(((a - b).abs() as f64) <= 2e-5 * (a.abs() as f64).max(1.0) + dhw_band || (a.is_nan() && b.is_nan())) {
                    t.violation("C11.dhw_fraction_changes_with_scale", format!("renewable DHW fraction {a} becomes {b} when every energy is multiplied by {c}"), || wit(json!({})));
                }
            }
            (Out::Err(..), Out::Err(..)) => {}
            (a, b) => t.violation("C11.dhw_fraction_changes_with_scale", format!("renewable DHW fraction: {} for the building, {} when scaled by {c}", a.describe(), b.describe()), || wit(json!({}))),
        }
        t.count(if pow2 { "scalings.power_of_two" } else { "scalings.other" });
        t.set_insert("scale_factors", format!("{c}"));
    }
    // area: c x area divides the per-m2 figures by c and changes nothing else
    let ca = *r.pick(&[2.0f32, 4.0, 0.5, 3.0, 10.0, 0.1]);
    let area2 = case.area * ca;
    if area2 > 0.0011 {
        if let Some(ep2) = eval(PROP, case, &comps, &fac, case.k, area2, case.lm, t) {
            let f2 = flat(&ep2);
            for (p, v) in &base {
                let Some(v2) = f2.get(p) else { continue };
                if p == "arearef" {
                    continue;
                }
                let ok = if p.starts_with("balance_m2.") {
                    let want = v / ca as f64;
                    let s = rf.get(p).map(|x| x.s).unwrap_or(v.abs()) / ca as f64;
                    (v2 - want).abs() <= 1e-12 + 2e-6 * s.max(want.abs())
                } else {
                    same_across_evals(p, *v, *v2, &rf)
                };
                if !ok {
                    t.violation("C11.area_scaling", format!("{p}: {v} at area {} and {v2} at area {area2}", case.area), || {
                        let mut w = case.witness();
                        w["area2"] = json!(area2);
                        w
                    });
                    break;
                }
            }
            t.count("area_scalings_checked");
        }
    }
    if get(&base, "balance.prod.an") > 0.0 && carriers_of(&base).len() >= 2 {
        t.nontrivial(case.hash());
        t.sample(|| {
            let mut s = short_case(case);
            s["scale_factors"] = json!([picks[0].0, picks[1].0]);
            s["area_factor"] = json!(ca);
            s
        });
    }
}

pub fn run(ctx: &Ctx) -> Report {
    let total = ctx.cases(10_000, 400_000);
    let tally = run_sharded(ctx, total, |_idx, r, t| {
        let mut o = GenOpts::default();
        o.vmul = *r.pick(&[1i64, 8, 8, 16]);
        o.demands = Tri::Always;
        o.long_steps = ctx.thorough();
        if r.chance(1, 2) {
            o.class = Some(Class::Dyadic);
        }
        let case = gen_case(r, &o, 25);
        check_case(ctx, &case, t);
    });
    let quotas = vec![
        ("scalings.power_of_two".to_string(), tally.get("scalings.power_of_two"), 2000),
        ("scalings.other".to_string(), tally.get("scalings.other"), 500),
        ("fields_compared_bitwise".to_string(), tally.get("fields_compared_bitwise"), 100_000),
        ("dhw_fraction_pairs_compared".to_string(), tally.get("dhw_fraction_pairs_compared"), 300),
        ("area_scalings_checked".to_string(), tally.get("area_scalings_checked"), 1000),
    ];
    Report {
        tally,
        rule: "every declared value of a generated building is multiplied by c (powers of two from 2^-3 to 2^10: per-carrier results must be exactly c times, bitwise; 3, 0.1, 0.3, 7.5, 1000: within tolerance), keeping values 0 or >= 0.01 kWh and below 1e7; RER values, load-matching factors and the DHW renewable fraction must not change; the reference area is multiplied by another factor and only the per-m2 figures may change; non-trivial = at least two carriers and some production; distinct = distinct (components text, factors, k_exp, area, mode)".into(),
        assumptions: vec![
            "buildings with regenerated auxiliaries and building totals are accumulated in hash order: compared within 2e-6 of the cancellation scale instead of bitwise".into(),
            "the domain excludes scalings that push a non-zero value below 0.01 kWh (absolute guards 1e-3 / 0.01 of the library stay on the same side)".into(),
        ],
        quotas,
    }
}

pub fn replay(ctx: &Ctx, _monitor: &str, w: &Value) -> Option<Report> {
    let case: Case = serde_json::from_value(w["case"].clone()).ok()?;
    let mut t = Tally::default();
    check_case(ctx, &case, &mut t);
    Some(Report { tally: t, rule: "replay".into(), assumptions: vec![], quotas: vec![] })
}
