//! C05 — parsing keeps declared data and completes ambient / solar production exactly.

use super::common::*;
use crate::case::{gen_case, Case};
use crate::gen::{Class, GenOpts, Tri};
use crate::safe::{self, Out};
use crate::spec::*;
use crate::tally::Tally;
use crate::{run_sharded, Ctx, Report};
use cteepbd::types::{Energy, HasValues};
use cteepbd::Components;
use serde_json::{json, Value};
use std::collections::BTreeMap;

const PROP: &str = "C05";

fn bits(v: &[f32]) -> Vec<u32> {
    v.iter().map(|x| x.to_bits()).collect()
}

/// key of a parsed component comparable with a declared line: (tags, id)
fn comp_key(e: &Energy) -> (String, i32) {
    match e {
        Energy::Used(u) => (format!("CONSUMO, {}, {}", u.service, u.carrier), u.id),
        Energy::Prod(p) => (format!("PRODUCCION, {}", p.source), p.id),
        Energy::Aux(a) => ("AUX".to_string(), a.id),
        Energy::Out(o) => (format!("SALIDA, {}", o.service), o.id),
    }
}

/// aggregated per-(tags, id) per-step values of a component list
fn aggregate(c: &Components) -> BTreeMap<(String, i32), Vec<f64>> {
    let mut m: BTreeMap<(String, i32), Vec<f64>> = BTreeMap::new();
    for e in &c.data {
        let k = match e {
            Energy::Aux(a) => (format!("AUX, {}", a.service), a.id),
            _ => comp_key(e),
        };
        let v = e.values();
        let a = m.entry(k).or_insert_with(|| vec![0.0; v.len()]);
        for (i, x) in v.iter().enumerate() {
            if i < a.len() {
                a[i] += *x as f64;
            }
        }
    }
    m
}

pub fn check_case(_ctx: &Ctx, case: &Case, t: &mut Tally) {
    let spec = &case.spec;
    let mut text = spec.to_text();
    if case.sub_seed % 4 == 0 {
        // some values spelled another way (1.5e3, +4, 4.00, 4., .5): the declared number is the same
        text = crate::spec::respell_values(&text, &mut crate::rng::Rng::new(case.sub_seed));
        t.count("files_with_respelled_values");
    }
    let n = spec.n;
    let wit = |extra: Value| {
        let mut w = case.witness();
        w["observed"] = extra;
        w
    };
    t.evaluations += 1;
    let comps = match safe::parse_components(&text) {
        Out::Ok(c) => c,
        Out::Err(v, m) => {
            // only the auxiliary split can legitimately reject a generated file (C06 decides that)
            if spec.has_aux() && m.contains("auxiliares") {
                t.count("rejected_by_auxiliary_split");
            } else {
                t.violation("C05.valid_file_rejected", format!("a well-formed components file is rejected: {v}: {m}"), || wit(json!({})));
            }
            return;
        }
        Out::Panic(m) => {
            t.violation("evaluation_panicked.parse", format!("parsing panicked: {m}"), || wit(json!({})));
            return;
        }
    };
    // ---- (a) every declared CONSUMO / PRODUCCION / SALIDA line is there, unaltered
    let mut taken = vec![false; comps.data.len()];
    for l in &spec.lines {
        let (tags, id) = match l {
            Line::Used { .. } | Line::Prod { .. } | Line::Out { .. } => (l.tags(), l.id().unwrap()),
            _ => continue,
        };
        t.count("declared_lines_checked");
        let want_bits = bits(l.values());
        let want_comment = l.comment().trim();
        let mut found = false;
        let mut near: Option<String> = None;
        for (i, e) in comps.data.iter().enumerate() {
            if taken[i] || e.is_aux() {
                continue;
            }
            if comp_key(e) == (tags.clone(), id) {
                if bits(e.values()) == want_bits && e.comment() == want_comment {
                    taken[i] = true;
                    found = true;
                    break;
                }
                near = Some(format!("values {:?} comment {:?}", e.values(), e.comment()));
            }
        }
        if !found {
            t.violation(
                "C05.declared_line_dropped_or_altered",
                format!("declared line `{}` has no identical parsed component{}", l.render(true), near.map(|s| format!(" (closest with the same tags: {s})")).unwrap_or_default()),
                || wit(json!({"line": l.render(true)})),
            );
        }
    }
    // demands: element-wise sum of the declared lines of each service
    for (srv, got) in [("ACS", &comps.needs.ACS), ("CAL", &comps.needs.CAL), ("REF", &comps.needs.REF)] {
        // (a demand may be declared with another number of values than the components, e.g. one annual value;
        // the lines of one service have the same length in generated files)
        let mut want: Option<Vec<f64>> = None;
        let mut mag: Vec<f64> = vec![];
        for l in &spec.lines {
            if let Line::Need { srv: s, v } = l {
                if s == srv {
                    let w = want.get_or_insert_with(|| vec![0.0; v.len()]);
                    mag.resize(w.len(), 0.0);
                    for i in 0..v.len().min(w.len()) {
                        w[i] += v[i] as f64;
                        mag[i] += v[i].abs() as f64;
                    }
                }
            }
        }
        match (want, got) {
            (None, None) => {}
            (Some(w), Some(g)) => {
                t.count("demand_services_checked");
                let bad = g.len() != w.len() || (0..w.len()).any(|i| (g[i] as f64 - w[i]).abs() > 3e-7 * mag[i]);
                if bad {
                    t.violation("C05.demand_altered", format!("DEMANDA {srv}: parsed {:?} but the declared lines add up to {:?}", g, w), || wit(json!({"service": srv})));
                }
            }
            (w, g) => t.violation("C05.demand_dropped_or_invented", format!("DEMANDA {srv}: declared = {}, parsed = {}", w.is_some(), g.is_some()), || wit(json!({"service": srv}))),
        }
    }
    // ---- (b) what was added: only ambient / solar completions (and the reassigned auxiliaries, C06)
    let mut added: BTreeMap<(String, i32), Vec<f64>> = BTreeMap::new();
    for (i, e) in comps.data.iter().enumerate() {
        if taken[i] || e.is_aux() {
            continue;
        }
        match e {
            Energy::Prod(p) if matches!(p.source.to_string().as_str(), "EAMBIENTE" | "TERMOSOLAR") => {
                if p.values.len() != n {
                    t.violation("C05.completion_wrong_length", format!("added production for system {} has {} steps, not {n}", p.id, p.values.len()), || wit(json!({})));
                    continue;
                }
                let a = added.entry((p.source.to_string(), p.id)).or_insert_with(|| vec![0.0; n]);
                for k in 0..n {
                    a[k] += p.values[k] as f64;
                }
            }
            other => t.violation("C05.unexpected_component_added", format!("parsed component not declared in the file: `{}`", other), || wit(json!({"component": other.to_string()}))),
        }
    }
    let mut coverage_states = std::collections::BTreeSet::new();
    let mut systems_using = 0;
    for cr in ["EAMBIENTE", "TERMOSOLAR"] {
        let mut use_by_id: BTreeMap<i32, Vec<f64>> = BTreeMap::new();
        let mut decl_by_id: BTreeMap<i32, Vec<f64>> = BTreeMap::new();
        for l in &spec.lines {
            match l {
                Line::Used { id, cr: c, v, .. } if c == cr => {
                    let a = use_by_id.entry(*id).or_insert_with(|| vec![0.0; n]);
                    for k in 0..n {
                        a[k] += v[k] as f64;
                    }
                }
                Line::Prod { id, src, v, .. } if src == cr => {
                    let a = decl_by_id.entry(*id).or_insert_with(|| vec![0.0; n]);
                    for k in 0..n {
                        a[k] += v[k] as f64;
                    }
                }
                _ => {}
            }
        }
        let zero = vec![0.0; n];
        for (id, us) in &use_by_id {
            systems_using += 1;
            let decl = decl_by_id.get(id).unwrap_or(&zero);
            let add = added.get(&(cr.to_string(), *id)).unwrap_or(&zero);
            let (mut partial, mut surplus, mut none, mut exact) = (false, false, false, false);
            for k in 0..n {
                t.count("system_steps_checked");
                let want = (us[k] - decl[k]).max(0.0);
                // the library computes use - declared in f32: a few ulps of the larger operand
                let slack = 4e-7 * us[k].abs().max(decl[k].abs()) + 1e-9;
                if (add[k] - want).abs() > slack {
                    t.violation(
                        "C05.completion_is_not_uncovered_use",
                        format!("{cr} system {id} step {k}: added production {} but use {} - declared production of that system {} leaves {}", add[k], us[k], decl[k], want),
                        || wit(json!({"carrier": cr, "id": id, "step": k, "use": us[k], "declared": decl[k], "added": add[k]})),
                    );
                }
                if us[k] > 0.0 {
                    if decl[k] == 0.0 {
                        none = true;
                    } else if decl[k] < us[k] {
                        partial = true;
                    } else if decl[k] == us[k] {
                        exact = true;
                    } else {
                        surplus = true;
                    }
                } else if decl[k] > 0.0 {
                    surplus = true;
                }
            }
            for (f, name) in [(partial, "partial"), (surplus, "surplus"), (none, "none"), (exact, "exact")] {
                if f {
                    coverage_states.insert(format!("{name}"));
                    t.count(&format!("coverage.{name}"));
                }
            }
        }
        // completions for systems that do not use the carrier at all are not allowed
        for ((c, id), v) in &added {
            if c == cr && !use_by_id.contains_key(id) && v.iter().any(|x| *x != 0.0) {
                t.violation("C05.completion_for_foreign_system", format!("{cr}: production added for system {id}, which does not use it"), || wit(json!({"carrier": cr, "id": id})));
            }
        }
        if decl_by_id.keys().any(|id| !use_by_id.contains_key(id)) {
            t.count("production_declared_on_system_without_use");
        }
    }
    // ---- (c) surplus production is kept and exported: production per step seen by the balance
    if let Some(fac) = crate::safe::guard(|| case.fac.build()).ok() {
        if let Some(ep) = eval(PROP, case, &comps, &fac, case.k, case.area, false, t) {
            for cr in ["EAMBIENTE", "TERMOSOLAR"] {
                let carrier: cteepbd::types::Carrier = cr.parse().unwrap();
                let Some(b) = ep.balance_cr.get(&carrier) else { continue };
                for k in 0..n.min(b.prod.t.len()) {
                    let mut want_prod = 0.0;
                    let mut mag = 0.0;
                    for l in &spec.lines {
                        if let Line::Prod { src, v, .. } = l {
                            if src == cr {
                                want_prod += v[k] as f64;
                                mag += v[k].abs() as f64;
                            }
                        }
                    }
                    for ((c, _), v) in &added {
                        if c == cr {
                            want_prod += v[k];
                            mag += v[k].abs();
                        }
                    }
                    let got = b.prod.t[k] as f64;
                    if (got - want_prod).abs() > 2e-6 * mag + 1e-9 {
                        t.violation("C05.production_in_balance", format!("{cr} step {k}: the balance sees a production of {got}, declared + completed is {want_prod}"), || wit(json!({"carrier": cr, "step": k})));
                    }
                    let epus = b.used.epus_t[k] as f64;
                    let want_exp = (want_prod - epus).max(0.0);
                    if (b.exp.t[k] as f64 - want_exp).abs() > 2e-6 * mag.max(epus) + 1e-9 {
                        t.violation("C05.surplus_not_exported", format!("{cr} step {k}: exported {} but production {want_prod} exceeds the EPB use {epus} by {want_exp}", b.exp.t[k]), || wit(json!({"carrier": cr, "step": k})));
                    }
                    if want_exp > 0.0 {
                        t.count("steps_with_exported_ambient_or_solar");
                    }
                }
            }
        }
    }
    // ---- (d) normalising an already normalised set changes nothing
    match safe::guard(|| comps.clone().normalize()) {
        Out::Ok(c2) => {
            t.count("idempotence_checks");
            let a1 = aggregate(&comps);
            let a2 = aggregate(&c2);
            let dyadic = spec.lines.iter().all(|l| l.values().iter().all(|x| (*x * 8.0).fract() == 0.0)) && !spec.has_aux();
            for (k, v1) in &a1 {
                let v2 = a2.get(k);
                let ok = match v2 {
                    Some(v2) => v1.len() == v2.len() && v1.iter().zip(v2.iter()).all(|(x, y)| if dyadic { x == y } else { (x - y).abs() <= (1e-5 + 1.5e-7 * n as f64) * x.abs().max(y.abs()) + 1e-4 }),
                    None => v1.iter().all(|x| x.abs() < 1e-4),
                };
                if !ok {
                    t.violation("C05.normalize_not_idempotent", format!("normalising twice changes {:?}: {:?} -> {:?}", k, v1, v2), || wit(json!({"component": format!("{:?}", k)})));
                }
            }
            for (k, v2) in &a2 {
                if !a1.contains_key(k) && v2.iter().any(|x| x.abs() >= 1e-4) {
                    t.violation("C05.normalize_not_idempotent", format!("normalising twice adds {:?}: {:?}", k, v2), || wit(json!({"component": format!("{:?}", k)})));
                }
            }
            if dyadic && c2.data.len() != comps.data.len() {
                t.violation("C05.normalize_not_idempotent", format!("normalising twice changes the number of components: {} -> {}", comps.data.len(), c2.data.len()), || wit(json!({})));
            }
            let m1: Vec<(String, String)> = comps.meta.iter().map(|m| (m.key.clone(), m.value.clone())).collect();
            let m2: Vec<(String, String)> = c2.meta.iter().map(|m| (m.key.clone(), m.value.clone())).collect();
            if m1 != m2 || serde_json::to_value(&comps.needs).ok() != serde_json::to_value(&c2.needs).ok() {
                t.violation("C05.normalize_not_idempotent", "normalising twice changes metadata or demands".into(), || wit(json!({})));
            }
        }
        Out::Err(v, m) => t.violation("C05.normalize_not_idempotent", format!("normalising an already normalised set fails: {v}: {m}"), || wit(json!({}))),
        Out::Panic(m) => t.violation("evaluation_panicked.normalize", format!("normalize panicked: {m}"), || wit(json!({}))),
    }
    // metadata kept
    for (k, v) in &spec.meta {
        if !comps.meta.iter().any(|m| &m.key == k && m.value == v.trim()) {
            t.violation("C05.metadata_altered", format!("metadata {k}: {v} not found after parsing"), || wit(json!({"key": k})));
        }
    }
    if systems_using >= 2 && coverage_states.len() >= 2 {
        t.nontrivial(spec.hash());
        t.sample(|| json!({"components": text, "systems_using_ambient_or_solar": systems_using, "coverage_states": coverage_states}));
    }
}

pub fn run(ctx: &Ctx) -> Report {
    let total = ctx.cases(20_000, 800_000);
    let mut o = GenOpts::default();
    o.amb = Tri::Always;
    o.hostile_comments = true;
    o.meta = true;
    o.long_steps = ctx.thorough();
    let tally = run_sharded(ctx, total, |_idx, r, t| {
        let mut o = o.clone();
        if r.chance(1, 2) {
            o.class = Some(Class::Dyadic);
        }
        let case = gen_case(r, &o, 0);
        check_case(ctx, &case, t);
    });
    let quotas = vec![
        ("coverage.partial".to_string(), tally.get("coverage.partial"), 200),
        ("coverage.surplus".to_string(), tally.get("coverage.surplus"), 200),
        ("coverage.none".to_string(), tally.get("coverage.none"), 200),
        ("coverage.exact".to_string(), tally.get("coverage.exact"), 50),
        ("production_declared_on_system_without_use".to_string(), tally.get("production_declared_on_system_without_use"), 50),
        ("steps_with_exported_ambient_or_solar".to_string(), tally.get("steps_with_exported_ambient_or_solar"), 100),
        ("idempotence_checks".to_string(), tally.get("idempotence_checks"), 1000),
    ];
    Report {
        tally,
        rule: "generated component files in which several systems (ids incl. negative, huge and repeated) use EAMBIENTE / TERMOSOLAR with none / partial / exact / surplus declared production, production declared on foreign or production-only ids, hostile comments and metadata; the parsed components are matched line by line (bitwise values, ids, tags, comments) against the declared lines, the added components against max(0, use - declared production of the same system) per step, the balance's production and export against declared + completed, and normalize() is applied a second time; non-trivial = at least two systems using the carrier, in different coverage states; distinct = distinct components text".into(),
        assumptions: vec![
            "f32 residue of (use - declared) + declared may add a line below 1e-4 kWh on re-normalisation of decimal data; not treated as a change (values are 0 or >= 0.01 kWh in the property's domain)".into(),
        ],
        quotas,
    }
}

pub fn replay(ctx: &Ctx, _monitor: &str, w: &Value) -> Option<Report> {
    let case: Case = serde_json::from_value(w["case"].clone()).ok()?;
    let mut t = Tally::default();
    check_case(ctx, &case, &mut t);
    Some(Report { tally: t, rule: "replay".into(), assumptions: vec![], quotas: vec![] })
}
