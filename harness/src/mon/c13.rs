//! C13 — renewable energy ratios are proper fractions and perimeters are nested (k_exp = 0, regulatory factors).

use super::common::*;
use crate::case::{gen_case, gen_loc, Case};
use crate::gen::{GenOpts, Tri};
use crate::tally::Tally;
use crate::{run_sharded, Ctx, Report};
use serde_json::{json, Value};

const PROP: &str = "C13";

pub fn check_case(_ctx: &Ctx, case: &Case, t: &mut Tally) {
    let Some((comps, fac)) = prepare(PROP, case, t) else { return };
    let Some(ep) = eval(PROP, case, &comps, &fac, 0.0, case.area, case.lm, t) else { return };
    let Ok(rf) = ref_eval_parsed(&comps, &fac, 0.0, case.area, case.lm) else {
        t.count("reference_error");
        return;
    };
    let (ren, nren) = (ep.balance.we.b.ren as f64, ep.balance.we.b.nren as f64);
    let tot = ren + nren;
    let (rer, nrb, onst) = (ep.rer as f64, ep.rer_nrb as f64, ep.rer_onst as f64);
    // cancellation scale of the primary energy total
    let s = rf.get("balance.we.b.ren").map(|v| v.s).unwrap_or(0.0) + rf.get("balance.we.b.nren").map(|v| v.s).unwrap_or(0.0);
    let wit = |what: &str| {
        let mut w = case.witness();
        w["k_exp_evaluated"] = json!(0.0);
        w["observed"] = json!({"rer": rer, "rer_nrb": nrb, "rer_onst": onst, "we_b_ren": ren, "we_b_nren": nren, "scale": s, "what": what});
        w
    };
    if tot == 0.0 {
        t.count("cases_with_zero_total");
        if rer != 0.0 || nrb != 0.0 || onst != 0.0 {
            t.violation("C13.zero_total_not_reported_as_zero", format!("total primary energy is 0 but RER = {rer}, RER_nrb = {nrb}, RER_onst = {onst}"), || wit("zero total"));
        }
        return;
    }
    if !(tot > 1e-3 * s && tot > 1e-3) {
        // total is rounding noise of its own terms: any ratio is noise (counted, never a pass)
        t.count("degenerate_total_skipped");
        return;
    }
    let slack = 2e-6 + 3e-5 * s / tot;
    t.max("largest_slack_used", slack);
    // definition
    if (rer - ren / tot).abs() > 1e-6 + 3e-7 * (ren.abs() / tot) {
        t.violation("C13.rer_is_not_ren_over_total", format!("RER = {rer} but ren / (ren + nren) = {}", ren / tot), || wit("definition"));
    }
    if rer < -slack || rer > 1.0 + slack {
        t.violation("C13.rer_outside_unit_interval", format!("RER = {rer} is not in [0, 1] (primary energy ren {ren}, nren {nren})"), || wit("range"));
    }
    if onst < -slack {
        t.violation("C13.rer_onst_negative", format!("RER_onst = {onst} < 0"), || wit("onst < 0"));
    }
    if onst > nrb + slack {
        t.violation("C13.onsite_exceeds_nearby", format!("RER_onst = {onst} > RER_nrb = {nrb} (RER = {rer})"), || wit("onst > nrb"));
    }
    if nrb > rer + slack {
        t.violation("C13.nearby_exceeds_distant", format!("RER_nrb = {nrb} > RER = {rer} (RER_onst = {onst})"), || wit("nrb > rer"));
    }
    t.count("cases_checked");
    let fl = flat(&ep);
    let pv_exp = get(&fl, "balance_cr.ELECTRICIDAD.exp.by_src_an.EL_INSITU");
    let cgn_exp = get(&fl, "balance_cr.ELECTRICIDAD.exp.by_src_an.EL_COGEN");
    if pv_exp > 0.0 {
        t.count("feature.pv_exported");
        if get(&fl, "balance_cr.ELECTRICIDAD.used.epus_an") == 0.0 {
            t.count("feature.pv_exported_without_electric_use");
        }
    }
    if cgn_exp > 0.0 {
        t.count("feature.cogeneration_exported");
        let fuels: Vec<&str> = case.spec.lines.iter().filter_map(|l| match l { crate::spec::Line::Used { srv, cr, .. } if srv == "COGEN" => Some(cr.as_str()), _ => None }).collect();
        let nearby = fuels.iter().filter(|c| crate::spec::NEARBY.contains(c)).count();
        if fuels.iter().any(|c| crate::spec::ONSITE.contains(c)) {
            t.count("feature.cogeneration_onsite_fuel");
        }
        t.count(if nearby == fuels.len() { "feature.cogeneration_nearby_fuel" } else if nearby == 0 { "feature.cogeneration_distant_fuel" } else { "feature.cogeneration_mixed_fuels" });
    }
    if get(&fl, "balance_cr.EAMBIENTE.exp.an") + get(&fl, "balance_cr.TERMOSOLAR.exp.an") > 0.0 {
        t.count("feature.ambient_or_solar_surplus");
    }
    if onst > 0.0 && onst < nrb - 1e-6 && nrb < rer - 1e-6 {
        t.count("cases_with_strictly_nested_perimeters");
    }
    if pv_exp + cgn_exp > 0.0 || (onst > 0.0 && nrb > onst) {
        t.nontrivial(case.hash());
        t.sample(|| {
            let mut s = short_case(case);
            s["k_exp"] = json!(0.0);
            s["rer_onst_nrb_rer"] = json!([onst, nrb, rer]);
            s
        });
    }
}

pub fn run(ctx: &Ctx) -> Report {
    let total = ctx.cases(15_000, 600_000);
    let mut o = GenOpts::default();
    o.long_steps = ctx.thorough();
    o.onsite_cogen_fuel = true;
    o.el_cogen_input = true;
    let tally = run_sharded(ctx, total, |_idx, r, t| {
        let mut o = o.clone();
        match r.below(5) {
            0 => o.cogen = Tri::Always,
            1 => {
                o.pv = Tri::Always;
                o.max = 50.0; // small uses, so that production often exceeds them
            }
            2 => o.amb = Tri::Always,
            _ => {}
        }
        let mut case = gen_case(r, &o, 0);
        case.fac = gen_loc(r);
        case.k = 0.0;
        if r.chance(1, 10) {
            // a building that only produces: no electricity use at all
            case.spec.lines.retain(|l| !matches!(l, crate::spec::Line::Used { cr, srv, .. } if cr == "ELECTRICIDAD" && srv != "NEPB") && !matches!(l, crate::spec::Line::Aux { .. }));
            if !case.spec.lines.iter().any(|l| matches!(l, crate::spec::Line::Used { .. })) {
                case.spec.lines.push(crate::spec::Line::Used { id: 0, srv: "CAL".into(), cr: "GASNATURAL".into(), v: vec![10.0; case.spec.n], comment: String::new() });
            }
        }
        if r.chance(1, 30) {
            crate::gen::without_epb_use(&mut case.spec, r);
        }
        if r.chance(1, 12) {
            // twin contributions: two nearby carriers whose annual renewable energy is the same number, bit for bit (a heat
            // pump and a solar system with the same values in another order; RED1 and RED2 with the same use - their
            // regulatory factors are equal)
            use crate::spec::Line;
            let n = case.spec.n;
            let v: Vec<f32> = (0..n).map(|_| (8 + r.below(800)) as f32 / 8.0).collect();
            let mut w = v.clone();
            w.reverse();
            let (a, b) = *r.pick(&[("EAMBIENTE", "TERMOSOLAR"), ("RED1", "RED2"), ("EAMBIENTE", "TERMOSOLAR")]);
            let srv = *r.pick(&["CAL", "ACS"]);
            case.spec.lines.push(Line::Used { id: 61, srv: srv.into(), cr: a.into(), v, comment: String::new() });
            case.spec.lines.push(Line::Used { id: 62, srv: srv.into(), cr: b.into(), v: w, comment: String::new() });
            t.count("feature.twin_nearby_contributions");
        }
        check_case(ctx, &case, t);
    });
    let quotas = vec![
        ("cases_checked".to_string(), tally.get("cases_checked"), 5000),
        ("feature.pv_exported".to_string(), tally.get("feature.pv_exported"), 1000),
        ("feature.twin_nearby_contributions".to_string(), tally.get("feature.twin_nearby_contributions"), 200),
        ("feature.pv_exported_without_electric_use".to_string(), tally.get("feature.pv_exported_without_electric_use"), 50),
        ("feature.cogeneration_nearby_fuel".to_string(), tally.get("feature.cogeneration_nearby_fuel"), 100),
        ("feature.cogeneration_distant_fuel".to_string(), tally.get("feature.cogeneration_distant_fuel"), 100),
        ("feature.cogeneration_mixed_fuels".to_string(), tally.get("feature.cogeneration_mixed_fuels"), 30),
        ("feature.cogeneration_onsite_fuel".to_string(), tally.get("feature.cogeneration_onsite_fuel"), 30),
        ("feature.ambient_or_solar_surplus".to_string(), tally.get("feature.ambient_or_solar_surplus"), 300),
        ("cases_with_strictly_nested_perimeters".to_string(), tally.get("cases_with_strictly_nested_perimeters"), 300),
    ];
    Report {
        tally,
        rule: "generated buildings with non-negative values (PV exporting with and without electric use, ambient / solar surplus, biomass and district carriers, cogeneration with nearby, distant, mixed, on-site (ambient / solar) and even electric input, both load-matching modes) evaluated at k_exp = 0 with the four regulatory factor sets with or without non-negative user RED1 / RED2; checks RER = ren / (ren + nren) of the reported step B energy, RER in [0, 1], 0 <= RER_onst <= RER_nrb <= RER, all zero when the total is zero; non-trivial = electricity is exported or the three perimeters differ; distinct = distinct (components text, factors, area, mode)".into(),
        assumptions: vec![
            "cases whose total primary energy is below 1e-3 of the sum of magnitudes of its terms (rounding noise) are counted as degenerate and skipped".into(),
            "ratio slack 2e-6 + 3e-5 * cancellation scale / total".into(),
        ],
        quotas,
    }
}

pub fn replay(ctx: &Ctx, _monitor: &str, w: &Value) -> Option<Report> {
    let case: Case = serde_json::from_value(w["case"].clone()).ok()?;
    let mut t = Tally::default();
    check_case(ctx, &case, &mut t);
    Some(Report { tally: t, rule: "replay".into(), assumptions: vec![], quotas: vec![] })
}
