//! Helpers shared by the in-process monitors.

use crate::case::Case;
use crate::flat::{self, Flat};
use crate::norm;
use crate::refmodel::{self, RefErr, RefInput, RefOut, Tol, V};
use crate::safe::{self, Out};
use crate::spec::Spec;
use crate::tally::Tally;
use cteepbd::{types::EnergyPerformance, Components, Factors};

/// Parse the rendered spec and prepare the factor set. A panic is a violation of whatever
/// property is being checked (no result at all is returned); typed errors are only counted.
pub fn prepare(prop: &str, case: &Case, t: &mut Tally) -> Option<(Components, Factors)> {
    let text = case.spec.to_text();
    let comps = match safe::parse_components(&text) {
        Out::Ok(c) => c,
        Out::Err(v, _) => {
            t.count(&format!("input.parse_{v}"));
            return None;
        }
        Out::Panic(m) => {
            t.violation("evaluation_panicked.parse", format!("{prop}: parsing a generated components file panicked: {m}"), || case.witness());
            return None;
        }
    };
    let fac = match safe::guard(|| case.fac.build()) {
        Out::Ok(f) => f,
        Out::Err(v, _) => {
            t.count(&format!("input.factors_{v}"));
            return None;
        }
        Out::Panic(m) => {
            t.violation("evaluation_panicked.factors", format!("{prop}: preparing the factor set panicked: {m}"), || case.witness());
            return None;
        }
    };
    Some((comps, fac))
}

pub fn eval(prop: &str, case: &Case, comps: &Components, fac: &Factors, k: f32, area: f32, lm: bool, t: &mut Tally) -> Option<EnergyPerformance> {
    t.evaluations += 1;
    match safe::eval(comps, fac, k, area, lm) {
        Out::Ok(ep) => Some(ep),
        Out::Err(v, _) => {
            t.count(&format!("eval.err_{v}"));
            None
        }
        Out::Panic(m) => {
            t.violation("evaluation_panicked.energy_performance", format!("{prop}: energy_performance panicked on a generated building: {m}"), || case.witness());
            None
        }
    }
}

pub fn ref_eval_parsed(comps: &Components, fac: &Factors, k: f32, area: f32, lm: bool) -> Result<RefOut, RefErr> {
    let (n, rc, needs) = refmodel::comps_from(comps);
    let facs = refmodel::facs_from(fac);
    refmodel::evaluate(&RefInput { n, comps: &rc, needs: &needs, facs: &facs, k_exp: k as f64, area: area as f64, lm })
}

/// reference evaluation from the *declared* lines (independent normalisation model + balance model)
pub fn ref_eval_spec(spec: &Spec, fac: &Factors, k: f32, area: f32, lm: bool) -> Option<Result<RefOut, RefErr>> {
    let e = norm::expected(spec).ok()?;
    if !e.aux_ambiguous.is_empty() {
        return None;
    }
    let facs = refmodel::facs_from(fac);
    Some(refmodel::evaluate(&RefInput { n: e.n, comps: &e.comps, needs: &e.needs, facs: &facs, k_exp: k as f64, area: area as f64, lm }))
}

/// by-carrier maps of the building totals list a carrier only when its amount is non-zero:
/// a key missing on one side is equivalent to 0 there
pub fn lenient_missing(path: &str) -> bool {
    path.contains(".prod.by_cr.") || path.contains(".del.grid_by_cr.") || path.contains(".used.epus_by_cr.")
}

#[derive(Debug, Clone)]
pub struct Diff {
    pub path: String,
    pub got: Option<f64>,
    pub want: Option<V>,
    pub norm: f64,
}

/// Compare a flattened result with the reference; returns the discrepancies and the largest
/// normalised discrepancy seen among the fields that passed.
pub fn compare(got: &Flat, want: &RefOut, tol: &Tol, skip: &dyn Fn(&str) -> bool) -> (Vec<Diff>, f64, u64) {
    let mut diffs = vec![];
    let mut worst = 0.0f64;
    let mut compared = 0u64;
    for (p, g) in got {
        if skip(p) {
            continue;
        }
        match want.get(p) {
            Some(w) => {
                compared += 1;
                let nrm = tol.norm(*g, *w);
                if tol.ok(*g, *w) {
                    if nrm > worst {
                        worst = nrm;
                    }
                } else {
                    diffs.push(Diff { path: p.clone(), got: Some(*g), want: Some(*w), norm: nrm });
                }
            }
            None => {
                // a reported exact zero without expected counterpart (e.g. a service or carrier key whose
                // values are all zero) carries no energy
                if *g == 0.0 {
                    continue;
                }
                diffs.push(Diff { path: p.clone(), got: Some(*g), want: None, norm: f64::INFINITY });
            }
        }
    }
    for (p, w) in want {
        if skip(p) || got.contains_key(p) {
            continue;
        }
        if (lenient_missing(p) && tol.ok(0.0, *w)) || w.v == 0.0 {
            continue;
        }
        diffs.push(Diff { path: p.clone(), got: None, want: Some(*w), norm: f64::INFINITY });
    }
    (diffs, worst, compared)
}

pub fn describe(diffs: &[Diff], max: usize) -> String {
    let mut s = String::new();
    for d in diffs.iter().take(max) {
        match (&d.got, &d.want) {
            (Some(g), Some(w)) => s.push_str(&format!("{}: got {} expected {} (scale {:.4e}, {:.1}x band); ", d.path, g, w.v, w.s, d.norm)),
            (Some(g), None) => s.push_str(&format!("{}: reported {} but not expected to exist; ", d.path, g)),
            (None, Some(w)) => s.push_str(&format!("{}: missing, expected {}; ", d.path, w.v)),
            _ => {}
        }
    }
    if diffs.len() > max {
        s.push_str(&format!("... {} fields differ", diffs.len()));
    }
    s
}

pub fn flat(ep: &EnergyPerformance) -> Flat {
    flat::flatten_ep(ep)
}

/// carriers of a flattened result
pub fn carriers_of(f: &Flat) -> Vec<String> {
    let mut v: Vec<String> = vec![];
    for p in f.keys() {
        if let Some(rest) = p.strip_prefix("balance_cr.") {
            let cr = rest.split('.').next().unwrap_or("").to_string();
            if !v.contains(&cr) {
                v.push(cr);
            }
        }
    }
    v
}

pub fn get(f: &Flat, p: &str) -> f64 {
    f.get(p).copied().unwrap_or(0.0)
}

/// sum of all entries whose path starts with `prefix` and has no further '.' or '[' nesting beyond one key
pub fn sum_prefix(f: &Flat, prefix: &str) -> (f64, f64, usize) {
    let mut s = 0.0;
    let mut a = 0.0;
    let mut n = 0;
    for (p, v) in f.range(prefix.to_string()..) {
        if !p.starts_with(prefix) {
            break;
        }
        s += *v;
        a += v.abs();
        n += 1;
    }
    (s, a, n)
}

pub fn short_case(case: &Case) -> serde_json::Value {
    serde_json::json!({
        "components": case.spec.to_text(),
        "factors": case.fac.label(),
        "k_exp": case.k, "area": case.area, "load_matching": case.lm,
    })
}

/// Two evaluations of the *same parsed components* give bitwise identical per-carrier results, but the
/// building totals are accumulated over carriers in hash-map order, which changes on every call: those
/// may differ by f32 accumulation rounding. Returns the admissible difference for `path`
/// (0.0 = must be bitwise equal).
pub fn cross_eval_band(path: &str, rf: &RefOut) -> f64 {
    if path == "k_exp" || path == "arearef" {
        return 0.0;
    }
    if path.starts_with("balance_cr.") {
        // per-carrier results are reproducible except for the derived cogeneration factor, a sum over a
        // HashMap of fuel carriers (order matters in f32 from three fuels on) and regenerated auxiliaries:
        // a few ulps of the field's cancellation scale
        return rf.get(path).map(|v| if v.s.is_finite() { 6e-7 * v.s } else { f64::INFINITY }).unwrap_or(0.0);
    }
    let s = rf.get(path).map(|v| v.s);
    match s {
        Some(s) if s.is_finite() => 1e-9 + 1.5e-6 * s,
        Some(_) => f64::INFINITY,
        None => 1e-9,
    }
}

pub fn same_across_evals(path: &str, a: f64, b: f64, rf: &RefOut) -> bool {
    if a.to_bits() == b.to_bits() || (a.is_nan() && b.is_nan()) {
        return true;
    }
    (a - b).abs() <= cross_eval_band(path, rf)
}

/// cancellation scale of a field for relational comparisons (from the reference evaluation of the base case)
pub fn scale_of(path: &str, rf: &RefOut, fallback: f64) -> f64 {
    rf.get(path).map(|v| v.s).unwrap_or(fallback.abs())
}

/// value of a field in a flattened result, where a by-carrier key that is not listed means 0
pub fn value_or_zero(f: &Flat, p: &str) -> Option<f64> {
    match f.get(p) {
        Some(v) => Some(*v),
        None if lenient_missing(p) => Some(0.0),
        None => None,
    }
}

/// absolute slack for numbers printed in a per-m2 report when two *different evaluations* are compared:
/// the rounding of hash-ordered accumulation under cancellation (reports_equal itself allows one unit of the last printed digit)
pub fn report_slack(rf: &RefOut) -> f64 {
    let smax = rf.iter().filter(|(p, _)| p.starts_with("balance_m2.")).map(|(_, v)| v.s).filter(|s| s.is_finite()).fold(0.0f64, f64::max);
    3e-6 * smax
}

/// extra absolute band for a JSON path (leading '.' stripped) from the reference scales
pub fn json_band(rf: &RefOut, path: &str) -> f64 {
    let p = path.trim_start_matches('.');
    rf.get(p).map(|v| if v.s.is_finite() { 3e-6 * v.s } else { f64::INFINITY }).unwrap_or(0.0)
}

/// key under which a monitor may record (with an infinite scale) that the DHW indicator is rounding noise
pub const DHW_KEY: &str = "misc.fraccion_renovable_demanda_acs_nrb";

/// The plain report prepared for comparison between two evaluations: when the total primary energy is
/// rounding noise of its own terms the RER lines are noise as well and are left out.
pub fn comparable_report(text: &str, rf: &RefOut) -> String {
    let noisy = rf.get("rer").map(|v| !(v.s < 0.004)).unwrap_or(false) || rf.get("rer_nrb").map(|v| !(v.s < 0.004)).unwrap_or(false);
    // by-carrier tables list a carrier only when its amount is non-zero; for an amount that is a rounding residue
    // (printed as 0.00 / -0.00) the row is there or not depending on the run: such rows are left out on both sides
    let zero_row = |l: &str| -> bool {
        match l.strip_prefix("- ").and_then(|r| r.split_once(": ")) {
            Some((k, v)) => k.chars().all(|c| c.is_ascii_uppercase() || c.is_ascii_digit() || c == '_') && (v == "0.00" || v == "-0.00"),
            None => false,
        }
    };
    // (C17's negated-input workload marks the DHW indicator as noise when a carrier's EPB use is a rounding residue)
    let dhw_noisy = rf.get(DHW_KEY).map(|v| !v.s.is_finite()).unwrap_or(false);
    text.lines()
        .filter(|l| !(noisy && (l.starts_with("RER = ") || l.starts_with("RER_nrb = "))) && !zero_row(l) && !(dhw_noisy && l.starts_with("Porcentaje renovable de la demanda de ACS")))
        .collect::<Vec<_>>()
        .join("\n")
}

/// Rounding noise of the DHW renewable fraction: it is a ratio whose numerator contains f32 differences
/// of electricity sums (auxiliaries discounted from the DHW electricity use) and whose denominator is the
/// declared demand, so when the demand is small against the energies involved the noise is amplified.
/// Returns (annual declared DHW demand, absolute noise band of the fraction).
pub fn dhw_noise_band(spec: &Spec) -> (f64, f64) {
    use crate::spec::Line;
    let mut dem = 0.0f64;
    let mut mag = 0.0f64;
    for l in &spec.lines {
        let a: f64 = l.values().iter().map(|x| x.abs() as f64).sum();
        match l {
            Line::Need { srv, .. } if srv == "ACS" => dem += l.values().iter().map(|x| *x as f64).sum::<f64>(),
            Line::Used { srv, cr, .. } if srv == "ACS" || cr == "ELECTRICIDAD" => mag += a,
            Line::Aux { .. } => mag += a,
            Line::Prod { src, .. } if src.starts_with("EL_") => mag += a,
            Line::Out { srv, .. } if srv == "ACS" => mag += a,
            _ => {}
        }
    }
    let band = if dem.abs() > 0.0 { 3e-6 * mag / dem.abs() } else { f64::INFINITY };
    (dem, band)
}

/// true when the annual DHW use of electricity (beyond auxiliaries) and of ambient heat are clear of the
/// library's absolute 0.01 kWh guards (zero, or at least 0.05 kWh), for the spec and for the spec scaled by c
pub fn dhw_guards_clear(spec: &Spec, c: f32) -> bool {
    use crate::spec::Line;
    for cr in ["ELECTRICIDAD", "EAMBIENTE"] {
        let v: f64 = spec.lines.iter().filter_map(|l| match l { Line::Used { srv, cr: lcr, v, .. } if srv == "ACS" && lcr == cr => Some(v.iter().map(|x| *x as f64).sum::<f64>()), _ => None }).sum();
        for k in [1.0, c as f64] {
            let x = v * k;
            if x != 0.0 && x < 0.05 {
                return false;
            }
        }
    }
    true
}

/// per-carrier results of two evaluations are bitwise equal only if no auxiliaries are regenerated (their order
/// varies) and the cogeneration factor sums at most two fuel carriers (f32 addition of three terms is order dependent)
pub fn per_carrier_deterministic(spec: &Spec) -> bool {
    use crate::spec::Line;
    let mut fuels: Vec<&str> = vec![];
    for l in &spec.lines {
        if let Line::Used { srv, cr, .. } = l {
            if srv == "COGEN" && !fuels.contains(&cr.as_str()) {
                fuels.push(cr.as_str());
            }
        }
    }
    !spec.has_aux() && fuels.len() <= 2
}
