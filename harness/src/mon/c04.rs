//! C04 — totals equal the sum of their breakdowns; per-m2 values equal totals / area.

use super::common::*;
use crate::case::{gen_case, Case};
use crate::flat::Flat;
use crate::gen::GenOpts;
use crate::tally::Tally;
use crate::{run_sharded, Ctx, Report};
use serde_json::{json, Value};
use std::collections::BTreeMap;

const PROP: &str = "C04";

/// building-level field(s) fed by a per-carrier annual field: (target path under `balance.`, only_if_nonzero)
fn targets(cr: &str, rest: &str) -> Vec<(String, bool)> {
    let mut v = vec![];
    let simple = [
        ("used.epus_an", "used.epus"),
        ("used.nepus_an", "used.nepus"),
        ("used.cgnus_an", "used.cgnus"),
        ("prod.an", "prod.an"),
        ("del.an", "del.an"),
        ("del.onst_an", "del.onst"),
        ("del.grid_an", "del.grid"),
        ("exp.an", "exp.an"),
        ("exp.grid_an", "exp.grid"),
        ("exp.nepus_an", "exp.nepus"),
    ];
    for (a, b) in simple {
        if rest == a {
            v.push((b.to_string(), false));
        }
    }
    match rest {
        "used.epus_an" => v.push((format!("used.epus_by_cr.{cr}"), true)),
        "prod.an" => v.push((format!("prod.by_cr.{cr}"), true)),
        "del.grid_an" => v.push((format!("del.grid_by_cr.{cr}"), true)),
        _ => {}
    }
    if let Some(s) = rest.strip_prefix("used.epus_by_srv_an.") {
        v.push((format!("used.epus_by_srv.{s}"), false));
        v.push((format!("used.epus_by_cr_by_srv.{s}.{cr}"), false));
    }
    if let Some(s) = rest.strip_prefix("prod.by_src_an.") {
        v.push((format!("prod.by_src.{s}"), false));
    }
    if let Some(s) = rest.strip_prefix("prod.epus_by_src_an.") {
        v.push((format!("prod.epus_by_src.{s}"), false));
    }
    if let Some(s) = rest.strip_prefix("prod.epus_by_srv_by_src_an.") {
        v.push((format!("prod.epus_by_srv_by_src.{s}"), false));
    }
    for w in ["we.a.", "we.b.", "we.del.", "we.exp_a.", "we.exp.", "we.a_by_srv.", "we.b_by_srv."] {
        if rest.starts_with(w) {
            v.push((rest.to_string(), false));
        }
    }
    v
}

fn check_flat(case: &Case, fl: &Flat, t: &mut Tally, wit: &dyn Fn(Value) -> Value) {
    // ---- (a) every whole-building figure is the sum of the per-carrier figures
    let mut want: BTreeMap<String, (f64, f64, u32)> = BTreeMap::new();
    for (p, v) in fl {
        let Some(rest) = p.strip_prefix("balance_cr.") else { continue };
        if p.ends_with(']') {
            continue;
        }
        let (cr, rest) = rest.split_once('.').unwrap_or((rest, ""));
        for (target, nz) in targets(cr, rest) {
            if nz && *v == 0.0 {
                continue;
            }
            let e = want.entry(format!("balance.{target}")).or_insert((0.0, 0.0, 0));
            e.0 += *v;
            e.1 += v.abs();
            e.2 += 1;
        }
    }
    let slack = |a: f64| 3e-6 * a + 1e-9;
    for (p, v) in fl {
        if !p.starts_with("balance.") || p.starts_with("balance.needs.") {
            continue;
        }
        t.count("building_fields_checked");
        match want.get(p) {
            Some((s, a, _)) => {
                if (v - s).abs() > slack(*a) {
                    t.violation("C04.total_is_not_sum_of_carriers", format!("{p} = {v} but the per-carrier figures add up to {s}"), || wit(json!({"path": p, "reported": v, "sum_of_carriers": s})));
                }
            }
            None => {
                if lenient_missing(p) && *v == 0.0 {
                    continue;
                }
                // the scalars exist even for an empty set of carriers
                if *v != 0.0 {
                    t.violation("C04.total_without_carrier_data", format!("{p} = {v} has no per-carrier counterpart"), || wit(json!({"path": p})));
                }
            }
        }
    }
    for (p, (s, a, _)) in &want {
        if !fl.contains_key(p) && s.abs() > slack(*a) {
            t.violation("C04.missing_breakdown_entry", format!("{p} is missing although the carriers add up to {s}"), || wit(json!({"path": p})));
        }
    }
    // needs: sum of the declared demand lines
    for srv in ["ACS", "CAL", "REF"] {
        let mut s = 0.0f64;
        let mut a = 0.0f64;
        let mut any = false;
        for l in &case.spec.lines {
            if let crate::spec::Line::Need { srv: ls, v } = l {
                if ls == srv {
                    any = true;
                    s += v.iter().map(|x| *x as f64).sum::<f64>();
                    a += v.iter().map(|x| x.abs() as f64).sum::<f64>();
                }
            }
        }
        let got = fl.get(&format!("balance.needs.{srv}"));
        match (any, got) {
            (true, Some(g)) => {
                if (g - s).abs() > (case.spec.n as f64 + 4.0) * 1.2e-7 * a + 1e-9 {
                    t.violation("C04.needs_total", format!("balance.needs.{srv} = {g} but the declared demand adds up to {s}"), || wit(json!({"service": srv})));
                }
            }
            (false, None) => {}
            _ => t.violation("C04.needs_total", format!("balance.needs.{srv}: declared = {any}, reported = {}", got.is_some()), || wit(json!({"service": srv}))),
        }
    }
    // ---- (b) each breakdown adds up to its total
    let b = "balance";
    let sum = |prefix: &str| sum_prefix(fl, prefix);
    // breakdowns by service are sums over the steps of (share x flow): f32 accumulation over n steps
    let rt = 4e-6 + 1.5e-7 * case.spec.n as f64;
    let mut ident = |name: &str, total: f64, parts: f64, abs: f64| {
        if (total - parts).abs() > rt * abs.max(total.abs()) + 1e-7 {
            t.violation("C04.breakdown_does_not_add_up", format!("{name}: total {total} vs breakdown {parts}"), || wit(json!({"identity": name, "total": total, "breakdown_sum": parts})));
        }
        t.count("breakdown_identities_checked");
    };
    let epus = get(fl, &format!("{b}.used.epus"));
    let (s, a, _) = sum(&format!("{b}.used.epus_by_srv."));
    ident("EPB use by service", epus, s, a);
    let (s, a, _) = sum(&format!("{b}.used.epus_by_cr."));
    ident("EPB use by carrier", epus, s, a);
    let (s, a, _) = sum(&format!("{b}.used.epus_by_cr_by_srv."));
    ident("EPB use by service by carrier", epus, s, a);
    let prod = get(fl, &format!("{b}.prod.an"));
    let (s, a, _) = sum(&format!("{b}.prod.by_src."));
    ident("production by source", prod, s, a);
    let (s, a, _) = sum(&format!("{b}.prod.by_cr."));
    ident("production by carrier", prod, s, a);
    for src in ["EL_INSITU", "EL_COGEN", "TERMOSOLAR", "EAMBIENTE"] {
        if let Some(tot) = fl.get(&format!("{b}.prod.epus_by_src.{src}")) {
            let (s, a, n) = sum(&format!("{b}.prod.epus_by_srv_by_src.{src}."));
            // only meaningful when some service uses the carrier; without services used production is 0
            if n > 0 || *tot != 0.0 {
                ident(&format!("produced-and-used energy of {src} by service"), *tot, s, a);
            }
        }
    }
    let del = get(fl, &format!("{b}.del.an"));
    let parts = get(fl, &format!("{b}.del.grid")) + get(fl, &format!("{b}.del.onst")) + get(fl, &format!("{b}.used.cgnus"));
    ident("delivered = grid + on-site + cogeneration input", del, parts, parts.abs());
    let exp = get(fl, &format!("{b}.exp.an"));
    let parts = get(fl, &format!("{b}.exp.grid")) + get(fl, &format!("{b}.exp.nepus"));
    ident("exported = grid + non-EPB", exp, parts, parts.abs());
    for w in ["a", "b"] {
        for c in ["ren", "nren", "co2"] {
            let mut by_srv = 0.0;
            let mut by_srv_abs = 0.0;
            for (p, v) in fl.range(format!("{b}.we.{w}_by_srv.")..) {
                if !p.starts_with(&format!("{b}.we.{w}_by_srv.")) {
                    break;
                }
                if p.ends_with(&format!(".{c}")) {
                    by_srv += v;
                    by_srv_abs += v.abs();
                }
            }
            let mut by_cr = 0.0;
            let mut by_cr_abs = 0.0;
            for cr in carriers_of(fl) {
                if get(fl, &format!("balance_cr.{cr}.used.epus_an")) > 0.0 {
                    let v = get(fl, &format!("balance_cr.{cr}.we.{w}.{c}"));
                    by_cr += v;
                    by_cr_abs += v.abs();
                }
            }
            ident(&format!("weighted energy step {w} {c} by service (carriers with EPB use)"), by_cr, by_srv, by_srv_abs.max(by_cr_abs));
        }
    }
    // ---- (c) every per-m2 figure is the absolute figure divided by the area
    let area = case.area as f64;
    for (p, v) in fl {
        let Some(rest) = p.strip_prefix("balance.") else { continue };
        let pm = format!("balance_m2.{rest}");
        match fl.get(&pm) {
            Some(m) => {
                let want = v / area;
                if (m - want).abs() > 5e-7 * want.abs() + 1e-35 {
                    t.violation("C04.per_m2_is_not_total_over_area", format!("{pm} = {m} but {p} / area = {want}"), || wit(json!({"path": pm, "area": area})));
                }
                t.count("per_m2_fields_checked");
            }
            None => t.violation("C04.per_m2_field_missing", format!("{pm} is missing"), || wit(json!({"path": pm}))),
        }
    }
    for p in fl.keys() {
        if let Some(rest) = p.strip_prefix("balance_m2.") {
            if !fl.contains_key(&format!("balance.{rest}")) {
                t.violation("C04.per_m2_field_without_total", format!("{p} has no absolute counterpart"), || wit(json!({"path": p})));
            }
        }
    }
}

pub fn check_case(_ctx: &Ctx, case: &Case, t: &mut Tally) {
    let Some((comps, fac)) = prepare(PROP, case, t) else { return };
    let Some(ep) = eval(PROP, case, &comps, &fac, case.k, case.area, case.lm, t) else { return };
    let fl = flat(&ep);
    let wit = |extra: Value| {
        let mut w = case.witness();
        w["observed"] = extra;
        w
    };
    check_flat(case, &fl, t, &wit);
    // ---- (d) the area only affects the per-m2 figures
    let mut r = crate::rng::Rng::new(case.sub_seed);
    let c = *r.pick(&[2.0f32, 0.5, 3.0, 10.5, 0.01, 1000.0, 1.0 / 3.0]);
    let area2 = (case.area * c).max(0.0011);
    if let Some(ep2) = eval(PROP, case, &comps, &fac, case.k, area2, case.lm, t) {
        let f2 = flat(&ep2);
        let rf = ref_eval_parsed(&comps, &fac, case.k, case.area, case.lm).unwrap_or_default();
        for (p, v) in &fl {
            if p == "arearef" || p.starts_with("balance_m2.") {
                continue;
            }
            match f2.get(p) {
                Some(v2) if same_across_evals(p, *v, *v2, &rf) => {}
                other => t.violation("C04.area_changes_other_results", format!("{p}: {v} with area {} but {:?} with area {area2}", case.area, other), || wit(json!({"path": p, "area2": area2}))),
            }
        }
        if f2.get("arearef").copied() != Some(area2 as f64) || fl.get("arearef").copied() != Some(case.area as f64) {
            t.violation("C04.area_echo", "the area recorded in the result is not the one given".into(), || wit(json!({"area2": area2})));
        }
        // the second evaluation must be consistent in itself as well (per-m2 = its own totals / its area)
        let mut case2 = case.clone();
        case2.area = area2;
        check_flat(&case2, &f2, t, &wit);
        let same_inputs = serde_json::to_value(&ep.components).ok() == serde_json::to_value(&ep2.components).ok() && ep.wfactors.wdata.len() == ep2.wfactors.wdata.len();
        if !same_inputs {
            t.violation("C04.area_changes_inputs", "components / factors echoed in the result differ between two areas".into(), || wit(json!({"area2": area2})));
        }
        t.count("area_pairs_checked");
    }
    let ncr = carriers_of(&fl).len();
    let nsrv = case.spec.epb_services().len();
    if ncr >= 2 && nsrv >= 2 {
        t.nontrivial(case.hash());
        t.sample(|| {
            let mut s = short_case(case);
            s["carriers"] = json!(ncr);
            s["services"] = json!(nsrv);
            s["area_pair"] = json!([case.area, area2]);
            s
        });
    }
}

pub fn run(ctx: &Ctx) -> Report {
    let total = ctx.cases(12_000, 500_000);
    let mut o = GenOpts::default();
    o.long_steps = ctx.thorough();
    let tally = run_sharded(ctx, total, |_idx, r, t| {
        let case = gen_case(r, &o, 30);
        check_case(ctx, &case, t);
    });
    let quotas = vec![
        ("per_m2_fields_checked".to_string(), tally.get("per_m2_fields_checked"), 10_000),
        ("area_pairs_checked".to_string(), tally.get("area_pairs_checked"), 1_000),
        ("breakdown_identities_checked".to_string(), tally.get("breakdown_identities_checked"), 10_000),
    ];
    Report {
        tally,
        rule: "generated buildings (multi-carrier, multi-service, cogeneration, exports), areas from 0.0011 to 1e5 m2; every numeric leaf of balance is related to the per-carrier balances (sum table), to its breakdowns, and to its balance_m2 counterpart; a second evaluation at another area must leave everything but balance_m2 bitwise unchanged; non-trivial = at least two carriers and two EPB services; distinct = distinct (components text, factors, k_exp, area, mode)".into(),
        assumptions: vec!["sums across carriers / services may differ by 3e-6 of the sum of magnitudes (f32 accumulation order); per-m2 by 5e-7 relative".into()],
        quotas,
    }
}

pub fn replay(ctx: &Ctx, _monitor: &str, w: &Value) -> Option<Report> {
    let case: Case = serde_json::from_value(w["case"].clone()).ok()?;
    let mut t = Tally::default();
    check_case(ctx, &case, &mut t);
    Some(Report { tally: t, rule: "replay".into(), assumptions: vec![], quotas: vec![] })
}
