//! C03 — k_exp only interpolates between step A and step B (relational monitor, 4 evaluations per case).

use super::common::*;
use crate::case::{gen_case, Case};
use crate::gen::GenOpts;
use crate::refmodel::Tol;
use crate::tally::Tally;
use crate::{run_sharded, Ctx, Report};
use serde_json::{json, Value};

const PROP: &str = "C03";

/// fields that may legitimately depend on k_exp
fn k_dependent(p: &str) -> bool {
    p == "k_exp"
        || p == "rer"
        || p == "rer_nrb"
        || p == "rer_onst"
        || p.contains(".we.b.")
        || p.contains(".we.b_by_srv.")
        || p.contains(".we.exp.")
}

/// step A counterpart of a step B field
fn step_a_of(p: &str) -> String {
    p.replace(".we.b.", ".we.a.").replace(".we.b_by_srv.", ".we.a_by_srv.").replace(".we.exp.", ".we.exp_a.")
}

pub fn check_case(_ctx: &Ctx, case: &Case, t: &mut Tally) {
    let Some((comps, fac)) = prepare(PROP, case, t) else { return };
    let mut r = crate::rng::Rng::new(case.sub_seed);
    let k1 = (1 + r.below(99)) as f32 / 100.0;
    let k2 = if r.chance(1, 2) { case.k.clamp(0.0, 1.0) } else { (1 + r.below(999)) as f32 / 1000.0 };
    let Some(e0) = eval(PROP, case, &comps, &fac, 0.0, case.area, case.lm, t) else { return };
    let Some(e1) = eval(PROP, case, &comps, &fac, 1.0, case.area, case.lm, t) else { return };
    let Some(ea) = eval(PROP, case, &comps, &fac, k1, case.area, case.lm, t) else { return };
    let Some(eb) = eval(PROP, case, &comps, &fac, k2, case.area, case.lm, t) else { return };
    let (f0, f1, fa, fb) = (flat(&e0), flat(&e1), flat(&ea), flat(&eb));
    // scales from the reference evaluation at k = 1 (same structure for every k)
    let rf = match ref_eval_parsed(&comps, &fac, 1.0, case.area, case.lm) {
        Ok(r) => r,
        Err(_) => {
            t.count("reference_error");
            return;
        }
    };
    let tol = Tol::for_steps(case.spec.n);
    let wit = |extra: Value| {
        let mut w = case.witness();
        w["k_interior"] = json!([k1, k2]);
        w["observed"] = extra;
        w
    };
    let exports = get(&f0, "balance.exp.an") != 0.0 || carriers_of(&f0).iter().any(|c| get(&f0, &format!("balance_cr.{c}.exp.an")) != 0.0);
    let mut differing_ab = false;
    for (p, v0) in &f0 {
        let (Some(v1), Some(va), Some(vb)) = (f1.get(p), fa.get(p), fb.get(p)) else {
            t.violation("C03.result_shape_depends_on_k", format!("field {p} is not reported for every k_exp"), || wit(json!({"path": p})));
            continue;
        };
        if !k_dependent(p) {
            // k_exp does not enter these at all: identical (bitwise per carrier; building totals up to the
            // rounding of their hash-ordered accumulation over carriers)
            if !(same_across_evals(p, *v0, *v1, &rf) && same_across_evals(p, *v0, *va, &rf) && same_across_evals(p, *v0, *vb, &rf)) {
                let what = if p.contains(".we.") { "step A / partial weighted result" } else { "final-energy flow" };
                t.violation("C03.field_depends_on_k", format!("{what} {p} changes with k_exp: k=0 {v0}, k={k1} {va}, k={k2} {vb}, k=1 {v1}"), || wit(json!({"path": p})));
            }
            t.count("k_independent_fields_checked");
            continue;
        }
        if p.starts_with("rer") || p == "k_exp" {
            continue;
        }
        let Some(sc) = rf.get(p) else { continue };
        // B(0) = A (absolute slack only, plus two ulps of the scale)
        let pa = step_a_of(p);
        if let Some(a0) = f0.get(&pa) {
            let slack = tol.atol + 3e-7 * sc.s;
            if (v0 - a0).abs() > slack {
                t.violation("C03.k0_is_not_step_A", format!("{p} at k_exp=0 is {v0} but step A ({pa}) is {a0}"), || wit(json!({"path": p})));
            }
            if (v1 - a0).abs() > slack {
                differing_ab = true;
            }
        } else {
            t.harness_error(format!("no step A counterpart for {p}"));
        }
        // affine in k
        for (k, vk) in [(k1, va), (k2, vb)] {
            let want = v0 + (k as f64) * (v1 - v0);
            let band = tol.atol + tol.rtol * sc.s;
            if (vk - want).abs() > band {
                t.violation("C03.not_affine_in_k", format!("{p}: B({k}) = {vk} but A + k*(B(1)-A) = {want} (B(0) {v0}, B(1) {v1})"), || wit(json!({"path": p, "k": k})));
            }
            t.max("largest_normalised_affinity_residual", (vk - want).abs() / band);
        }
        // nothing exported: same result for every k
        let same = |a: f64, b: f64| (a - b).abs() <= tol.atol + 3e-7 * sc.s;
        if !exports && !(same(*v0, *v1) && same(*v0, *va) && same(*v0, *vb)) {
            t.violation("C03.k_matters_without_export", format!("{p} differs between k_exp values although nothing is exported: {v0} / {va} / {v1}"), || wit(json!({"path": p})));
        }
        t.count("k_dependent_fields_checked");
    }
    if f0.get("k_exp").copied() != Some(0.0) || f1.get("k_exp").copied() != Some(1.0) || fa.get("k_exp").copied() != Some(k1 as f64) {
        t.violation("C03.k_exp_echo", "the k_exp recorded in the result is not the one given".into(), || wit(json!({})));
    }
    if exports {
        t.count("cases_with_export");
    } else {
        t.count("cases_without_export");
    }
    if exports && differing_ab {
        t.nontrivial(case.hash());
        t.sample(|| {
            let mut s = short_case(case);
            s["k_points"] = json!([0.0, k1, k2, 1.0]);
            s["we_b_nren_at_k"] = json!([get(&f0, "balance.we.b.nren"), get(&fa, "balance.we.b.nren"), get(&fb, "balance.we.b.nren"), get(&f1, "balance.we.b.nren")]);
            s
        });
    }
}

pub fn run(ctx: &Ctx) -> Report {
    let total = ctx.cases(8_000, 400_000);
    let mut o = GenOpts::default();
    o.long_steps = ctx.thorough();
    let tally = run_sharded(ctx, total, |_idx, r, t| {
        let case = gen_case(r, &o, 50);
        check_case(ctx, &case, t);
    });
    let quotas = vec![
        ("cases_with_export".to_string(), tally.get("cases_with_export"), 300),
        ("cases_without_export".to_string(), tally.get("cases_without_export"), 100),
    ];
    Report {
        tally,
        rule: "each generated building (regulatory and all-different user factor sets, both load-matching modes) is evaluated at k_exp = 0, 1 and two interior points; every per-carrier, per-service and total step B field is checked against A + k (B(1) - A), B(0) against step A, and every other field for bitwise independence of k_exp; non-trivial = energy is exported and step A differs from step B for it; distinct = distinct (components text, factors, area, mode)".into(),
        assumptions: vec!["affinity residual tolerance atol 1e-4 + rtol * cancellation scale of the field (scales from the f64 reference model)".into()],
        quotas,
    }
}

pub fn replay(ctx: &Ctx, _monitor: &str, w: &Value) -> Option<Report> {
    let case: Case = serde_json::from_value(w["case"].clone()).ok()?;
    let mut t = Tally::default();
    check_case(ctx, &case, &mut t);
    Some(Report { tally: t, rule: "replay".into(), assumptions: vec![], quotas: vec![] })
}
