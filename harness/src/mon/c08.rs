//! C08 — simplifying the factor set (Factors::strip, the CLI default) never changes the result.

use super::common::*;
use crate::case::{gen_case, Case};
use crate::cli;
use crate::gen::{GenOpts, Tri};
use crate::safe::{self, Out};
use crate::spec::*;
use crate::tally::Tally;
use crate::{run_sharded, Ctx, Report};
use cteepbd::cte;
use serde_json::{json, Value};

const PROP: &str = "C08";

pub fn check_case(ctx: &Ctx, case: &Case, t: &mut Tally, with_cli: bool) {
    let Some((comps, fac)) = prepare(PROP, case, t) else { return };
    let wit = |extra: Value| {
        let mut w = case.witness();
        w["observed"] = extra;
        w
    };
    t.evaluations += 1;
    let full = safe::eval(&comps, &fac, case.k, case.area, case.lm);
    let stripped = match safe::guard_plain(|| fac.clone().strip(&comps)) {
        Out::Ok(f) => f,
        Out::Panic(m) => {
            t.violation("C08.strip_panicked", format!("Factors::strip panicked: {m}"), || wit(json!({})));
            return;
        }
        Out::Err(..) => unreachable!(),
    };
    t.add("factors_removed", (fac.wdata.len() - stripped.wdata.len().min(fac.wdata.len())) as u64);
    if stripped.wdata.len() < fac.wdata.len() {
        t.count("cases_where_something_was_stripped");
    }
    t.evaluations += 1;
    let simp = safe::eval(&comps, &stripped, case.k, case.area, case.lm);
    let (ep1, ep2) = match (full, simp) {
        (Out::Panic(m), _) => {
            t.violation("evaluation_panicked.energy_performance", format!("energy_performance panicked: {m}"), || wit(json!({})));
            return;
        }
        (_, Out::Panic(m)) => {
            t.violation("C08.evaluation_with_simplified_set_panicked", format!("energy_performance with the simplified set panicked: {m}"), || wit(json!({})));
            return;
        }
        (Out::Ok(_), Out::Err(v, m)) => {
            t.violation("C08.simplification_turns_success_into_error", format!("evaluation succeeds with the full set but fails with the simplified one: {v}: {m}"), || wit(json!({"stripped_factors": stripped.to_string()})));
            return;
        }
        (Out::Err(..), _) => {
            t.count("full_set_evaluation_rejected");
            return;
        }
        (Out::Ok(a), Out::Ok(b)) => (a, b),
    };
    let (f1, f2) = (flat(&ep1), flat(&ep2));
    let rf = ref_eval_parsed(&comps, &fac, case.k, case.area, case.lm).unwrap_or_default();
    let mut ndiff = 0;
    for (p, v) in &f1 {
        match f2.get(p) {
            Some(v2) if same_across_evals(p, *v, *v2, &rf) => {}
            other => {
                ndiff += 1;
                if ndiff <= 3 {
                    t.violation("C08.result_changes", format!("{p}: {v} with the full factor set, {:?} with the simplified one", other), || wit(json!({"path": p, "stripped_factors": stripped.to_string()})));
                }
            }
        }
    }
    for p in f2.keys() {
        if !f1.contains_key(p) {
            t.violation("C08.result_changes", format!("{p} only exists with the simplified set"), || wit(json!({"path": p})));
        }
    }
    t.add("fields_compared", f1.len() as u64);
    // the DHW indicator is computed from the result *and* its factor set
    let a1 = safe::guard(|| cte::fraccion_renovable_acs_nrb(&ep1));
    let a2 = safe::guard(|| cte::fraccion_renovable_acs_nrb(&ep2));
    match (&a1, &a2) {
        (Out::Ok(x), Out::Ok(y)) => {
            t.count("dhw_indicator_pairs_compared");
            if !((x - y).abs() <= 1e-5 * x.abs().max(1.0) || (x.is_nan() && y.is_nan())) {
                t.violation("C08.dhw_indicator_changes", format!("renewable DHW fraction {x} with the full set, {y} with the simplified one"), || wit(json!({})));
            }
        }
        (Out::Err(..), Out::Err(..)) => {}
        (_, Out::Panic(m)) | (Out::Panic(m), _) => t.violation("C08.dhw_indicator_panicked", format!("fraccion_renovable_acs_nrb panicked: {m}"), || wit(json!({}))),
        (x, y) => t.violation("C08.dhw_indicator_changes", format!("renewable DHW fraction: {} with the full set, {} with the simplified one", x.describe(), y.describe()), || wit(json!({}))),
    }
    // features
    let first_is_out = matches!(case.spec.lines.first(), Some(Line::Out { .. }));
    if first_is_out {
        t.count("feature.first_line_is_output_energy");
    }
    if case.spec.lines.iter().any(|l| matches!(l, Line::Out { .. })) {
        t.count("feature.output_energy_lines");
    }
    let el_only_aux = case.spec.has_aux() && !case.spec.lines.iter().any(|l| matches!(l, Line::Used { cr, .. } if cr == "ELECTRICIDAD") || matches!(l, Line::Prod { src, .. } if src.starts_with("EL_")));
    if el_only_aux {
        t.count("feature.aux_only_electricity");
    }
    if get(&f1, "balance_cr.ELECTRICIDAD.exp.by_src_an.EL_COGEN") > 0.0 && get(&f1, "balance_cr.ELECTRICIDAD.exp.nepus_an") > 0.0 {
        t.count("feature.cogeneration_exporting_to_nepb");
    }
    let nepb_non_el_only = case.spec.lines.iter().any(|l| matches!(l, Line::Used { srv, cr, .. } if srv == "NEPB" && cr != "ELECTRICIDAD"))
        && !case.spec.lines.iter().any(|l| matches!(l, Line::Used { srv, cr, .. } if srv == "NEPB" && cr == "ELECTRICIDAD"));
    if nepb_non_el_only {
        t.count("feature.nepb_use_only_on_non_electric_carriers");
    }
    if get(&f1, "balance_cr.EAMBIENTE.exp.an") + get(&f1, "balance_cr.TERMOSOLAR.exp.an") > 0.0 {
        t.count("feature.exported_ambient_or_solar");
    }
    // process level: the CLI default (simplified) against -F (full)
    if with_cli {
        if let Some(bin) = &ctx.cli_debug {
            cli_pair(bin, case, &rf, t);
        }
    }
    if stripped.wdata.len() < fac.wdata.len() && carriers_of(&f1).len() >= 2 {
        t.nontrivial(case.hash());
        t.sample(|| {
            let mut s = short_case(case);
            s["factors_full"] = json!(fac.wdata.len());
            s["factors_simplified"] = json!(stripped.wdata.len());
            s
        });
    }
}

fn cli_pair(bin: &std::path::Path, case: &Case, rf: &crate::refmodel::RefOut, t: &mut Tally) {
    use crate::case::FacChoice;
    let dir = cli::scratch_dir("c08");
    let cpath = dir.join("c.csv");
    if std::fs::write(&cpath, case.spec.to_text()).is_err() {
        t.harness_error("cannot write scratch file".into());
        return;
    }
    let mut args: Vec<String> = vec!["-c".into(), cpath.display().to_string(), "-a".into(), format!("{}", case.area), "-k".into(), format!("{}", case.k)];
    match &case.fac {
        FacChoice::Loc { loc, red1, red2 } => {
            args.push("-l".into());
            args.push(loc.clone());
            for (name, v) in [("--red1", red1), ("--red2", red2)] {
                if let Some(v) = v {
                    args.push(name.into());
                    for x in v {
                        args.push(format!("{x}"));
                    }
                }
            }
        }
        FacChoice::User { text, .. } => {
            let fpath = dir.join("f.csv");
            let _ = std::fs::write(&fpath, text);
            args.push("-f".into());
            args.push(fpath.display().to_string());
        }
    }
    if case.lm {
        args.push("--load_matching".into());
    }
    let mut args_full = args.clone();
    args_full.push("-F".into());
    // the default run also saves the factor set it worked with
    let of = dir.join("of.csv");
    args.push("--of".into());
    args.push(of.display().to_string());
    let r1 = cli::run(bin, &args, 20_000);
    let r2 = cli::run(bin, &args_full, 20_000);
    t.evaluations += 2;
    t.count("cli_pairs_run");
    let wit = || {
        let mut w = case.witness();
        w["argv"] = json!(args);
        w
    };
    if r1.timed_out || r2.timed_out {
        if r1.stderr.contains("panicked at") || r2.stderr.contains("panicked at") {
            t.violation("C08.cli_crashed", "cteepbd panicked (and hung) on a generated building".into(), wit);
        } else {
            t.count("cli_timeouts_inconclusive");
        }
        let _ = std::fs::remove_dir_all(&dir);
        return;
    }
    if r1.signal.is_some() || r1.stderr.contains("panicked at") {
        t.violation("C08.cli_crashed", format!("cteepbd (default, simplified factors) crashed: signal {:?}: {}", r1.signal, r1.stderr.lines().next().unwrap_or("")), wit);
    } else if r2.code == Some(0) && r1.code != Some(0) {
        t.violation("C08.simplification_turns_success_into_error", format!("cteepbd -F succeeds but the default run exits with {:?}: {}", r1.code, r1.stderr.lines().next().unwrap_or("")), wit);
    } else if r1.code == Some(0) && r2.code == Some(0) {
        // compare the plain reports number by number
        let rep = |s: &str| -> String { s.split("** Eficiencia energética").nth(1).unwrap_or("").to_string() };
        let (a, b) = (rep(&r1.stdout), rep(&r2.stdout));
        if a.is_empty() || !cli::reports_equal(&comparable_report(a.trim(), rf), &comparable_report(b.trim(), rf), report_slack(rf)) {
            t.violation("C08.cli_report_changes", "the report printed with simplified factors differs from the one printed with -F".into(), || {
                let mut w = wit();
                w["report_default"] = json!(a);
                w["report_full"] = json!(b);
                w
            });
        }
        t.count("cli_reports_compared");
        // "what the command-line tool does by default": the set the default run worked with (saved with --of) is
        // the library's simplification of the prepared set for this building
        let key = |f: &cteepbd::types::Factor| format!("{}, {}, {}, {}", f.carrier, f.source, f.dest, f.step);
        let saved = std::fs::read_to_string(&of).unwrap_or_default();
        if let (crate::safe::Out::Ok(sf), crate::safe::Out::Ok(full), crate::safe::Out::Ok(comps)) = (crate::safe::parse_factors(&saved), crate::safe::guard(|| case.fac.build()), crate::safe::parse_components(&case.spec.to_text())) {
            let mut got: Vec<String> = sf.wdata.iter().map(key).collect();
            let mut want: Vec<String> = full.strip(&comps).wdata.iter().map(key).collect();
            got.sort();
            want.sort();
            if got != want {
                let extra: Vec<&String> = got.iter().filter(|k| !want.contains(k)).take(4).collect();
                let missing: Vec<&String> = want.iter().filter(|k| !got.contains(k)).take(4).collect();
                t.violation("C08.cli_default_is_not_the_simplified_set", format!("the default run worked with {} factors, the simplified set has {} (not simplified: {:?}; missing: {:?})", got.len(), want.len(), extra, missing), || {
                    let mut w = wit();
                    w["saved_factors"] = json!(saved);
                    w
                });
            }
            t.count("cli_default_factor_sets_compared");
        }
    }
    let _ = std::fs::remove_dir_all(&dir);
}

pub fn run(ctx: &Ctx) -> Report {
    let total = ctx.cases(15_000, 600_000);
    let cli_every = if ctx.thorough() { 150 } else { 100 };
    let mut o = GenOpts::default();
    o.long_steps = ctx.thorough();
    let tally = run_sharded(ctx, total, |idx, r, t| {
        let mut o = o.clone();
        // cogenerators with auxiliaries and no EPB service of their own (rejected at parse since F16;
        // before it they were accepted and booked inconsistently between balance and strip)
        o.aux_hostile = r.chance(1, 3);
        match r.below(6) {
            0 => {
                o.aux = Tri::Always;
                o.pv = Tri::Never;
                o.cogen = Tri::Never;
            }
            1 => {
                o.cogen = Tri::Always;
                o.nepb = Tri::Always;
            }
            2 => {
                o.amb = Tri::Always;
                o.nepb = Tri::Maybe;
            }
            _ => {}
        }
        let mut case = gen_case(r, &o, 40);
        if r.chance(1, 3) {
            // an output-energy line first (what the simplification inspects first)
            if let Some(i) = case.spec.lines.iter().position(|l| matches!(l, Line::Out { .. })) {
                let l = case.spec.lines.remove(i);
                case.spec.lines.insert(0, l);
            } else {
                let id = case.spec.lines.iter().filter_map(|l| l.id()).next().unwrap_or(0);
                let srv = case.spec.epb_services().first().cloned().unwrap_or("CAL".into());
                case.spec.lines.insert(0, Line::Out { id, srv, v: vec![1.5; case.spec.n], comment: String::new() });
            }
        }
        if o.aux == Tri::Always && r.chance(1, 2) {
            for l in case.spec.lines.iter_mut() {
                if let Line::Used { cr, .. } = l {
                    if cr == "ELECTRICIDAD" {
                        *cr = "GASNATURAL".to_string();
                    }
                }
            }
        }
        if r.chance(1, 8) {
            // non-EPB use only on non-electric carriers
            for l in case.spec.lines.iter_mut() {
                if let Line::Used { srv, cr, .. } = l {
                    if srv == "NEPB" && cr == "ELECTRICIDAD" {
                        *cr = r.pick(&["EAMBIENTE", "TERMOSOLAR", "GASNATURAL"]).to_string();
                    }
                }
            }
        }
        if r.chance(1, 25) {
            // no EPB use at all (only non-EPB consumption and / or production): the simplification must keep what the
            // exports to non-EPB uses need
            crate::gen::without_epb_use(&mut case.spec, r);
            t.count("cases_without_any_epb_use");
        }
        check_case(ctx, &case, t, idx % cli_every == 0);
    });
    let mut quotas = vec![
        ("cases_without_any_epb_use".to_string(), tally.get("cases_without_any_epb_use"), 100),
        ("cases_where_something_was_stripped".to_string(), tally.get("cases_where_something_was_stripped"), 1000),
        ("feature.first_line_is_output_energy".to_string(), tally.get("feature.first_line_is_output_energy"), 300),
        ("feature.aux_only_electricity".to_string(), tally.get("feature.aux_only_electricity"), 100),
        ("feature.cogeneration_exporting_to_nepb".to_string(), tally.get("feature.cogeneration_exporting_to_nepb"), 100),
        ("feature.nepb_use_only_on_non_electric_carriers".to_string(), tally.get("feature.nepb_use_only_on_non_electric_carriers"), 100),
        ("feature.exported_ambient_or_solar".to_string(), tally.get("feature.exported_ambient_or_solar"), 300),
        ("dhw_indicator_pairs_compared".to_string(), tally.get("dhw_indicator_pairs_compared"), 100),
    ];
    if ctx.cli_debug.is_some() {
        quotas.push(("cli_reports_compared".to_string(), tally.get("cli_reports_compared"), 50));
        quotas.push(("cli_default_factor_sets_compared".to_string(), tally.get("cli_default_factor_sets_compared"), 50));
    }
    Report {
        tally,
        rule: "generated buildings (output-energy lines first, auxiliaries as only electricity, cogeneration exporting to non-EPB uses, non-EPB use only on non-electric carriers, exported ambient / solar energy) x prepared factor sets (regulatory and user files incl. COGEN lines): energy_performance with the full set and with Factors::strip(set) must agree on every result field, the DHW indicator on both, and every ~100th case also goes through the real binary with and without -F; non-trivial = the simplification removes something and the building has at least two carriers; distinct = distinct (components text, factors, k_exp, area, mode)".into(),
        assumptions: vec!["building totals of two evaluations may differ by the rounding of their hash-ordered accumulation (1.5e-6 of the cancellation scale); per-carrier results must be bitwise equal".into()],
        quotas,
    }
}

pub fn replay(ctx: &Ctx, _monitor: &str, w: &Value) -> Option<Report> {
    let case: Case = serde_json::from_value(w["case"].clone()).ok()?;
    let mut t = Tally::default();
    check_case(ctx, &case, &mut t, ctx.cli_debug.is_some());
    Some(Report { tally: t, rule: "replay".into(), assumptions: vec![], quotas: vec![] })
}
