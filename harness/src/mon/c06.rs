//! C06 — all declared auxiliary electricity is counted once, for the right services.

use super::common::*;
use crate::case::{gen_case, Case};
use crate::gen::{GenOpts, Tri};
use crate::norm::{self, Kind};
use crate::refmodel::Tol;
use crate::safe::{self, Out};
use crate::spec::*;
use crate::tally::Tally;
use crate::{run_sharded, Ctx, Report};
use cteepbd::types::Energy;
use serde_json::{json, Value};
use std::collections::BTreeMap;

const PROP: &str = "C06";

pub fn check_case(_ctx: &Ctx, case: &Case, t: &mut Tally) {
    let spec = &case.spec;
    if !spec.has_aux() {
        t.count("cases_without_aux_skipped");
        return;
    }
    let text = spec.to_text();
    let n = spec.n;
    // annual output shares (steps without output) are f32 sums over n steps
    let rt = 4e-6 + 1.5e-7 * n as f64;
    let wit = |extra: Value| {
        let mut w = case.witness();
        w["observed"] = extra;
        w
    };
    let exp = norm::expected(spec);
    t.evaluations += 1;
    let comps = match (safe::parse_components(&text), &exp) {
        (Out::Panic(m), _) => {
            t.violation("evaluation_panicked.parse", format!("parsing panicked: {m}"), || wit(json!({})));
            return;
        }
        (Out::Err(_, _), Err(_)) => {
            t.count("rejected_as_expected.aux_without_output");
            return;
        }
        (Out::Err(v, m), Ok(e)) => {
            if !e.aux_ambiguous.is_empty() {
                t.count("rejected.ambiguous_system");
            } else {
                t.violation("C06.declared_aux_rejected", format!("file with a defined auxiliary split is rejected: {v}: {m}"), || wit(json!({})));
            }
            return;
        }
        (Out::Ok(c), _) => c,
    };
    // declared auxiliary energy per system and step
    let mut decl: BTreeMap<i32, Vec<f64>> = BTreeMap::new();
    for l in &spec.lines {
        if let Line::Aux { id, v, .. } = l {
            let a = decl.entry(*id).or_insert_with(|| vec![0.0; n]);
            for k in 0..n {
                a[k] += v[k] as f64;
            }
        }
    }
    // parsed auxiliary energy per system, service and step
    let mut got: BTreeMap<i32, BTreeMap<String, Vec<f64>>> = BTreeMap::new();
    for c in &comps.data {
        if let Energy::Aux(a) = c {
            if a.values.len() != n {
                t.violation("C06.aux_vector_length", format!("auxiliary component of system {} has {} steps instead of {n}", a.id, a.values.len()), || wit(json!({"id": a.id})));
                continue;
            }
            if let Some(k) = a.values.iter().position(|x| *x < 0.0 || x.is_nan()) {
                t.violation("C06.negative_share", format!("system {} service {}: auxiliary share {} at step {k} is negative", a.id, a.service, a.values[k]), || wit(json!({"id": a.id, "service": a.service.to_string(), "step": k})));
            }
            let e = got.entry(a.id).or_default().entry(a.service.to_string()).or_insert_with(|| vec![0.0; n]);
            for k in 0..n {
                e[k] += a.values[k] as f64;
            }
        }
    }
    let ambiguous: Vec<i32> = exp.as_ref().map(|e| e.aux_ambiguous.clone()).unwrap_or_default();
    // ---- (a) conservation per system and step; (b) EPB services only
    for (id, w) in &decl {
        let g = got.get(id);
        for k in 0..n {
            t.count("system_steps_checked");
            let sum: f64 = g.map(|m| m.values().map(|v| v[k]).sum()).unwrap_or(0.0);
            if (sum - w[k]).abs() > rt * w[k].abs() + 1e-7 {
                t.violation(
                    "C06.aux_not_conserved",
                    format!("system {id} step {k}: declared auxiliary energy {} but the assigned components add up to {sum}", w[k]),
                    || wit(json!({"id": id, "step": k, "declared": w[k], "assigned": sum})),
                );
                break;
            }
        }
        if let Some(m) = g {
            for srv in m.keys() {
                if !EPB.contains(&srv.as_str()) && !ambiguous.contains(id) {
                    t.violation("C06.aux_on_non_epb_service", format!("system {id}: auxiliary energy assigned to {srv}, which is not an EPB service"), || wit(json!({"id": id, "service": srv})));
                }
            }
        }
    }
    for id in got.keys() {
        if !decl.contains_key(id) {
            t.violation("C06.aux_invented", format!("auxiliary components for system {id}, which declares none"), || wit(json!({"id": id})));
        }
    }
    // ---- (c) / (d) the right services
    let mut multi_checked = 0;
    let mut single_checked = 0;
    if let Ok(e) = &exp {
        for (id, _) in &decl {
            if ambiguous.contains(id) || e.aux_share_defined.get(id) != Some(&true) {
                continue;
            }
            let zero_steps = e.aux_zero_out_steps.get(id).cloned().unwrap_or_default();
            let want: BTreeMap<String, &Vec<f64>> = e
                .comps
                .iter()
                .filter(|c| c.id == *id)
                .filter_map(|c| match &c.kind {
                    Kind::Aux { srv } => Some((srv.clone(), &c.v)),
                    _ => None,
                })
                .collect();
            let generated = e.comps.iter().any(|c| c.id == *id && matches!(c.kind, Kind::Aux { .. }) && c.generated);
            if generated {
                multi_checked += 1;
            } else {
                single_checked += 1;
            }
            let empty = BTreeMap::new();
            let g = got.get(id).unwrap_or(&empty);
            let mut services: Vec<&String> = want.keys().chain(g.keys()).collect();
            services.sort();
            services.dedup();
            'srv: for srv in services {
                for k in 0..n {
                    if zero_steps.contains(&k) {
                        continue; // the property does not say how to split where nothing is delivered
                    }
                    let w = want.get(srv).map(|v| v[k]).unwrap_or(0.0);
                    let x = g.get(srv).map(|v| v[k]).unwrap_or(0.0);
                    let tot = decl[id][k];
                    if (w - x).abs() > rt * tot.abs() + 1e-7 {
                        t.violation(
                            if generated { "C06.share_not_proportional_to_output" } else { "C06.single_service_assignment" },
                            format!("system {id} service {srv} step {k}: assigned {x}, expected {w} of the {tot} declared"),
                            || wit(json!({"id": id, "service": srv, "step": k, "assigned": x, "expected": w})),
                        );
                        break 'srv;
                    }
                    t.count("shares_checked");
                }
            }
        }
    }
    // ---- (f) counted in the balance as EPB electricity use (also when it is the only electricity)
    let only_el = !spec.lines.iter().any(|l| matches!(l, Line::Used { cr, .. } if cr == "ELECTRICIDAD") || matches!(l, Line::Prod { src, .. } if src.starts_with("EL_")));
    if let Some(fac) = safe::guard(|| case.fac.build()).ok() {
        if let Some(ep) = eval(PROP, case, &comps, &fac, case.k, case.area, case.lm, t) {
            let fl = flat(&ep);
            let decl_an: f64 = decl.values().map(|v| v.iter().sum::<f64>()).sum();
            if !fl.keys().any(|p| p.starts_with("balance_cr.ELECTRICIDAD.")) {
                if decl_an > 0.0 {
                    t.violation("C06.aux_not_in_balance", format!("{decl_an} kWh of auxiliary electricity declared but the result has no electricity balance"), || wit(json!({"only_electricity": only_el})));
                }
            } else if let Some(Ok(rf)) = ref_eval_spec(spec, &fac, case.k, case.area, case.lm) {
                let tol = Tol { atol: 1e-6, rtol: 2e-6 + rt };
                let zero_ids: Vec<i32> = exp.as_ref().map(|e| e.aux_zero_out_steps.keys().copied().collect()).unwrap_or_default();
                let sel = |p: &str| -> bool {
                    if !p.starts_with("balance_cr.ELECTRICIDAD.used.") {
                        return false;
                    }
                    // per-service vectors are not pinned at steps where a multi-service system delivers nothing
                    if p.contains("epus_by_srv") && !zero_ids.is_empty() {
                        return false;
                    }
                    p.contains(".epus_t[") || p.contains(".epus_by_srv_t.") || p.ends_with(".epus_an") || p.contains(".epus_by_srv_an.")
                };
                let (diffs, _, cmp) = compare(&fl, &rf, &tol, &|p| !sel(p));
                t.add("balance_values_compared", cmp);
                if !diffs.is_empty() {
                    t.violation("C06.aux_not_counted_as_epb_electricity_use", format!("EPB electricity use in the balance is not electric uses + auxiliaries: {}", describe(&diffs, 3)), || wit(json!({"only_electricity": only_el})));
                }
                if only_el {
                    t.count("cases_with_aux_as_only_electricity");
                }
            }
        }
    }
    if multi_checked > 0 {
        t.count("cases_with_multi_service_split");
    }
    if single_checked > 0 {
        t.count("cases_with_single_service_assignment");
    }
    if spec.lines.iter().any(|l| matches!(l, Line::Out { v, .. } if v.iter().any(|x| *x < 0.0))) {
        t.count("cases_with_negative_outputs");
    }
    {
        // systems declared only through SALIDA + AUX lines
        let with_lines: std::collections::BTreeSet<i32> = spec.lines.iter().filter_map(|l| match l { Line::Used { id, .. } | Line::Prod { id, .. } => Some(*id), _ => None }).collect();
        if decl.keys().any(|id| !with_lines.contains(id)) {
            t.count("cases_with_aux_on_a_system_without_consumption_lines");
        }
    }
    if exp.as_ref().map(|e| !e.aux_zero_out_steps.is_empty()).unwrap_or(false) {
        t.count("cases_with_zero_output_steps");
    }
    if decl.len() >= 2 && multi_checked >= 1 {
        t.nontrivial(spec.hash());
        t.sample(|| json!({"components": text, "systems_with_aux": decl.len(), "multi_service_systems": multi_checked}));
    }
}

pub fn run(ctx: &Ctx) -> Report {
    let total = ctx.cases(20_000, 800_000);
    let mut o = GenOpts::default();
    o.aux = Tri::Always;
    o.aux_hostile = true;
    o.long_steps = ctx.thorough();
    let tally = run_sharded(ctx, total, |_idx, r, t| {
        let mut o = o.clone();
        o.aux_multi = r.chance(2, 3);
        if r.chance(1, 5) {
            // auxiliaries as the only electricity of the building
            o.pv = Tri::Never;
            o.cogen = Tri::Never;
            o.nepb = Tri::Never;
        }
        let mut case = gen_case(r, &o, 10);
        if r.chance(1, 150) {
            crate::gen::plant_many_aux_systems(&mut case.spec, r);
            t.count("cases_with_more_than_35_systems_with_auxiliaries");
        }
        if o.pv == Tri::Never && r.chance(1, 2) {
            // turn every electric consumption into a fuel consumption: AUX is the only electricity left
            for l in case.spec.lines.iter_mut() {
                if let Line::Used { cr, .. } = l {
                    if cr == "ELECTRICIDAD" {
                        *cr = "GASNATURAL".to_string();
                    }
                }
            }
        }
        check_case(ctx, &case, t);
    });
    let quotas = vec![
        ("cases_with_multi_service_split".to_string(), tally.get("cases_with_multi_service_split"), 500),
        ("cases_with_single_service_assignment".to_string(), tally.get("cases_with_single_service_assignment"), 500),
        ("cases_with_negative_outputs".to_string(), tally.get("cases_with_negative_outputs"), 200),
        ("cases_with_zero_output_steps".to_string(), tally.get("cases_with_zero_output_steps"), 100),
        ("cases_with_aux_as_only_electricity".to_string(), tally.get("cases_with_aux_as_only_electricity"), 100),
        ("rejected_as_expected.aux_without_output".to_string(), tally.get("rejected_as_expected.aux_without_output"), 10),
        ("cases_with_aux_on_a_system_without_consumption_lines".to_string(), tally.get("cases_with_aux_on_a_system_without_consumption_lines"), 100),
    ];
    Report {
        tally,
        rule: "generated component files with AUX lines: several systems with auxiliaries, single- and multi-service systems, several AUX / SALIDA lines per system, cooling (negative) outputs, steps with zero output, auxiliaries as the only electricity, systems without any output (must be rejected, not silently dropped); parsed AUX components are checked for per-system per-step conservation, sign, EPB service, and the expected single-service / |output|-proportional shares; the electricity balance is compared with electric uses + auxiliaries computed from the declared lines; non-trivial = at least two systems with auxiliaries, one of them multi-service; distinct = distinct components text".into(),
        assumptions: vec![
            "at steps where a multi-service system delivers no output the property does not say how to split: only conservation is required there".into(),
            "systems whose CONSUMO lines also name NEPB / COGEN uses are ambiguous ('services served'): only conservation is required, rejection is accepted".into(),
        ],
        quotas,
    }
}

pub fn replay(ctx: &Ctx, _monitor: &str, w: &Value) -> Option<Report> {
    let case: Case = serde_json::from_value(w["case"].clone()).ok()?;
    let mut t = Tally::default();
    check_case(ctx, &case, &mut t);
    Some(Report { tally: t, rule: "replay".into(), assumptions: vec![], quotas: vec![] })
}
