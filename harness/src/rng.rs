//! splitmix64: the only source of randomness of the harness (seeded from VERIF_SEED).

#[derive(Clone, Debug)]
pub struct Rng(pub u64);

pub fn mix(a: u64, b: u64) -> u64 {
    let mut r = Rng(a ^ b.wrapping_mul(0x9E3779B97F4A7C15).rotate_left(17));
    r.next();
    r.next()
}

impl Rng {
    pub fn new(seed: u64) -> Self {
        let mut r = Rng(seed ^ 0x5DEECE66D);
        r.next();
        r
    }
    pub fn next(&mut self) -> u64 {
        self.0 = self.0.wrapping_add(0x9E3779B97F4A7C15);
        let mut z = self.0;
        z = (z ^ (z >> 30)).wrapping_mul(0xBF58476D1CE4E5B9);
        z = (z ^ (z >> 27)).wrapping_mul(0x94D049BB133111EB);
        z ^ (z >> 31)
    }
    /// uniform in 0..n (n > 0)
    pub fn below(&mut self, n: u64) -> u64 {
        self.next() % n
    }
    pub fn usize(&mut self, n: usize) -> usize {
        self.below(n as u64) as usize
    }
    /// true with probability num/den
    pub fn chance(&mut self, num: u64, den: u64) -> bool {
        self.below(den) < num
    }
    pub fn pick<'a, T>(&mut self, v: &'a [T]) -> &'a T {
        &v[self.below(v.len() as u64) as usize]
    }
    pub fn f01(&mut self) -> f64 {
        (self.next() >> 11) as f64 / (1u64 << 53) as f64
    }
    pub fn range_f(&mut self, lo: f64, hi: f64) -> f64 {
        lo + (hi - lo) * self.f01()
    }
    pub fn shuffle<T>(&mut self, v: &mut [T]) {
        for i in (1..v.len()).rev() {
            let j = self.below(i as u64 + 1) as usize;
            v.swap(i, j);
        }
    }
    pub fn perm(&mut self, n: usize) -> Vec<usize> {
        let mut p: Vec<usize> = (0..n).collect();
        self.shuffle(&mut p);
        p
    }
    pub fn fork(&mut self) -> Rng {
        Rng::new(self.next())
    }
}
