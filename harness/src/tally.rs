//! What a monitor run observed: counters, distinct non-trivial cases, samples, violations,
//! known findings. One Tally per shard, merged at the end, written as evidence/<id>.json.

use serde_json::{json, Value};
use std::collections::{BTreeMap, BTreeSet, HashSet};

#[derive(Clone, Debug)]
pub struct Violation {
    pub monitor: String,
    pub detail: String,
    pub witness: Value,
}

#[derive(Clone, Debug, Default)]
pub struct Tally {
    /// library evaluations / process runs performed
    pub evaluations: u64,
    /// cases generated
    pub cases: u64,
    /// hashes of the distinct cases that satisfy the property's non-triviality rule
    pub nontrivial: HashSet<u64>,
    pub counters: BTreeMap<String, u64>,
    pub maxes: BTreeMap<String, f64>,
    pub sets: BTreeMap<String, BTreeSet<String>>,
    pub samples: Vec<Value>,
    pub violations: Vec<Violation>,
    pub violation_count: u64,
    /// known findings observed: (finding id, description)
    pub known: BTreeMap<String, (u64, String)>,
    /// harness problems (never reported as property verdicts)
    pub harness_errors: Vec<String>,
}

pub const MAX_STORED_VIOLATIONS: usize = 12;
pub const MAX_SAMPLES: usize = 4;

impl Tally {
    pub fn count(&mut self, key: &str) {
        *self.counters.entry(key.to_string()).or_insert(0) += 1;
    }
    pub fn add(&mut self, key: &str, n: u64) {
        *self.counters.entry(key.to_string()).or_insert(0) += n;
    }
    pub fn get(&self, key: &str) -> u64 {
        self.counters.get(key).copied().unwrap_or(0)
    }
    pub fn max(&mut self, key: &str, x: f64) {
        let e = self.maxes.entry(key.to_string()).or_insert(f64::NEG_INFINITY);
        if x > *e {
            *e = x;
        }
    }
    pub fn set_insert(&mut self, key: &str, v: String) {
        let s = self.sets.entry(key.to_string()).or_default();
        if s.len() < 4096 {
            s.insert(v);
        }
    }
    pub fn nontrivial(&mut self, h: u64) {
        self.nontrivial.insert(h);
    }
    pub fn sample(&mut self, f: impl FnOnce() -> Value) {
        if self.samples.len() < MAX_SAMPLES {
            self.samples.push(f());
        }
    }
    pub fn violation(&mut self, monitor: &str, detail: String, witness: impl FnOnce() -> Value) {
        self.violation_count += 1;
        self.count(&format!("violation.{monitor}"));
        // keep at most a few witnesses per monitor name so that one defect does not mask another
        let same = self.violations.iter().filter(|v| v.monitor == monitor).count();
        if same < 3 && self.violations.len() < MAX_STORED_VIOLATIONS {
            self.violations.push(Violation { monitor: monitor.to_string(), detail, witness: witness() });
        }
    }
    pub fn known_finding(&mut self, id: &str, desc: String) {
        let e = self.known.entry(id.to_string()).or_insert((0, desc));
        e.0 += 1;
    }
    pub fn harness_error(&mut self, msg: String) {
        if self.harness_errors.len() < 20 {
            self.harness_errors.push(msg);
        }
    }
    pub fn merge(&mut self, o: Tally) {
        self.evaluations += o.evaluations;
        self.cases += o.cases;
        self.nontrivial.extend(o.nontrivial);
        for (k, v) in o.counters {
            *self.counters.entry(k).or_insert(0) += v;
        }
        for (k, v) in o.maxes {
            self.max(&k, v);
        }
        for (k, v) in o.sets {
            let s = self.sets.entry(k).or_default();
            for x in v {
                if s.len() < 4096 {
                    s.insert(x);
                }
            }
        }
        for s in o.samples {
            if self.samples.len() < MAX_SAMPLES {
                self.samples.push(s);
            }
        }
        self.violation_count += o.violation_count;
        for v in o.violations {
            let same = self.violations.iter().filter(|x| x.monitor == v.monitor).count();
            if same < 3 && self.violations.len() < MAX_STORED_VIOLATIONS {
                self.violations.push(v);
            }
        }
        for (k, (n, d)) in o.known {
            let e = self.known.entry(k).or_insert((0, d));
            e.0 += n;
        }
        self.harness_errors.extend(o.harness_errors);
    }

    pub fn evidence(&self, property: &str, tier: &str, seed: u64, rule: &str, assumptions: &[&str], wall_s: f64) -> Value {
        let mut cov = serde_json::Map::new();
        cov.insert("evaluations".into(), json!(self.evaluations));
        cov.insert("cases".into(), json!(self.cases));
        cov.insert("distinct_nontrivial".into(), json!(self.nontrivial.len()));
        cov.insert("rule".into(), json!(rule));
        cov.insert("samples".into(), json!(self.samples));
        cov.insert("counters".into(), json!(self.counters));
        let maxes: BTreeMap<&String, Value> = self.maxes.iter().map(|(k, v)| (k, if v.is_finite() { json!(v) } else { json!(v.to_string()) })).collect();
        cov.insert("max_observed".into(), json!(maxes));
        let sets: BTreeMap<&String, Value> = self
            .sets
            .iter()
            .map(|(k, v)| (k, json!({"distinct": v.len(), "examples": v.iter().take(12).collect::<Vec<_>>()})))
            .collect();
        cov.insert("distinct_observed".into(), json!(sets));
        let known: BTreeMap<&String, Value> = self.known.iter().map(|(k, (n, d))| (k, json!({"occurrences": n, "what": d}))).collect();
        cov.insert("known_findings_observed".into(), json!(known));
        cov.insert("exhaustive".into(), json!(false));
        json!({
            "property_id": property,
            "tier": tier,
            "seed": seed,
            "level": "exploration",
            "coverage": Value::Object(cov),
            "assumptions": assumptions,
            "wall_s": wall_s,
            "violations": self.violation_count,
        })
    }
}
