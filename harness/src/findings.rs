//! known_findings.txt: `finding: property=Cxx id=<id> <what fails>` lines suppress exactly the
//! violations whose mechanism predicate a monitor evaluates and names by id; `fixed:` lines
//! suppress nothing. The file is read, never written, at run time.

use std::path::Path;

#[derive(Clone, Debug, Default)]
pub struct Finding {
    pub property: String,
    pub id: String,
    pub what: String,
}

#[derive(Clone, Debug, Default)]
pub struct Findings {
    pub listed: Vec<Finding>,
}

pub fn load(path: &Path) -> Findings {
    let mut f = Findings::default();
    let txt = std::fs::read_to_string(path).unwrap_or_default();
    for line in txt.lines() {
        let l = line.trim();
        if let Some(rest) = l.strip_prefix("finding:") {
            let mut property = String::new();
            let mut id = String::new();
            let mut what = vec![];
            for tok in rest.split_whitespace() {
                if let Some(p) = tok.strip_prefix("property=") {
                    property = p.to_string();
                } else if let Some(i) = tok.strip_prefix("id=") {
                    id = i.to_string();
                } else {
                    what.push(tok);
                }
            }
            if !property.is_empty() && !id.is_empty() {
                f.listed.push(Finding { property, id, what: what.join(" ") });
            }
        }
    }
    f
}

impl Findings {
    pub fn get(&self, property: &str, id: &str) -> Option<&Finding> {
        self.listed.iter().find(|f| f.property == property && f.id == id)
    }
}
