//! Independent model of what reading a components file must produce (properties C05 / C06),
//! written from the property statements, not from components.rs.
//!
//! Input: the declared lines (Spec). Output: the list of energy components an evaluation
//! has to be based on, in f64, or the reason why the file cannot be accepted.

use crate::spec::*;
use std::collections::BTreeMap;

#[derive(Clone, Debug, PartialEq)]
pub enum Kind {
    /// EPB / NEPB / COGEN use of a carrier by a service
    Used { srv: String, cr: String },
    Prod { src: String },
    Aux { srv: String },
    Out { srv: String },
}

#[derive(Clone, Debug)]
pub struct RComp {
    pub id: i32,
    pub kind: Kind,
    pub v: Vec<f64>,
    /// true for components the reader must add itself (completions, reassigned auxiliaries)
    pub generated: bool,
}

impl RComp {
    pub fn carrier(&self) -> Option<&str> {
        match &self.kind {
            Kind::Used { cr, .. } => Some(cr.as_str()),
            Kind::Prod { src } => Some(match src.as_str() {
                "EL_INSITU" | "EL_COGEN" => "ELECTRICIDAD",
                "TERMOSOLAR" => "TERMOSOLAR",
                _ => "EAMBIENTE",
            }),
            Kind::Aux { .. } => Some("ELECTRICIDAD"),
            Kind::Out { .. } => None,
        }
    }
}

#[derive(Clone, Debug, Default)]
pub struct Expected {
    pub n: usize,
    pub comps: Vec<RComp>,
    pub needs: BTreeMap<String, Vec<f64>>,
    /// per system id: declared auxiliary energy per step
    pub aux_decl: BTreeMap<i32, Vec<f64>>,
    /// ids whose auxiliary split is fully determined by the property text (single service, or
    /// multi-service with outputs declared for a subset of the services the system consumes for)
    pub aux_share_defined: BTreeMap<i32, bool>,
    /// ids at which some step has AUX > 0 and zero total output (property does not fix the split there)
    pub aux_zero_out_steps: BTreeMap<i32, Vec<usize>>,
    /// (kept for the monitors' interface; always empty since defect F16 was repaired: only EPB services
    /// count as "services served", so systems whose CONSUMO lines also name NEPB / COGEN are decided)
    pub aux_ambiguous: Vec<i32>,
}

#[derive(Clone, Debug, PartialEq)]
pub enum Reject {
    /// a system with auxiliaries serving several services (or none) without any output energy to split by
    AuxWithoutOutput(i32),
}

fn f64v(v: &[f32]) -> Vec<f64> {
    v.iter().map(|x| *x as f64).collect()
}

pub fn expected(spec: &Spec) -> Result<Expected, Reject> {
    let n = spec.n;
    let mut e = Expected { n, ..Default::default() };
    // 1. declared lines are kept as they are
    for l in &spec.lines {
        match l {
            Line::Used { id, srv, cr, v, .. } => e.comps.push(RComp { id: *id, kind: Kind::Used { srv: srv.clone(), cr: cr.clone() }, v: f64v(v), generated: false }),
            Line::Prod { id, src, v, .. } => e.comps.push(RComp { id: *id, kind: Kind::Prod { src: src.clone() }, v: f64v(v), generated: false }),
            Line::Out { id, srv, v, .. } => e.comps.push(RComp { id: *id, kind: Kind::Out { srv: srv.clone() }, v: f64v(v), generated: false }),
            Line::Aux { id, v, .. } => {
                let a = e.aux_decl.entry(*id).or_insert_with(|| vec![0.0; n]);
                for t in 0..n {
                    a[t] += v[t] as f64;
                }
            }
            Line::Need { srv, v } => {
                // a demand may be declared with another number of values than the components (e.g. annual)
                let a = e.needs.entry(srv.clone()).or_insert_with(|| vec![0.0; v.len()]);
                for t in 0..v.len().min(a.len()) {
                    a[t] += v[t] as f64;
                }
            }
        }
    }
    // 2. ambient heat / solar thermal: per system and step, production = declared + max(0, use - declared)
    for cr in ["EAMBIENTE", "TERMOSOLAR"] {
        let mut use_by_id: BTreeMap<i32, Vec<f64>> = BTreeMap::new();
        let mut prod_by_id: BTreeMap<i32, Vec<f64>> = BTreeMap::new();
        for c in &e.comps {
            match &c.kind {
                Kind::Used { cr: ccr, .. } if ccr == cr => {
                    let a = use_by_id.entry(c.id).or_insert_with(|| vec![0.0; n]);
                    for t in 0..n {
                        a[t] += c.v[t];
                    }
                }
                Kind::Prod { src } if src == cr => {
                    let a = prod_by_id.entry(c.id).or_insert_with(|| vec![0.0; n]);
                    for t in 0..n {
                        a[t] += c.v[t];
                    }
                }
                _ => {}
            }
        }
        for (id, us) in &use_by_id {
            let zero = vec![0.0; n];
            let pr = prod_by_id.get(id).unwrap_or(&zero);
            let add: Vec<f64> = (0..n).map(|t| (us[t] - pr[t]).max(0.0)).collect();
            if add.iter().any(|x| *x > 0.0) {
                e.comps.push(RComp { id: *id, kind: Kind::Prod { src: cr.to_string() }, v: add, generated: true });
            }
        }
    }
    // 3. auxiliaries: all of it, once, on the EPB services of its own system
    for (id, w) in e.aux_decl.clone() {
        // EPB services the system consumes for (as declared by its CONSUMO lines); non-EPB and
        // cogeneration-input lines do not make a system "serve" anything: auxiliaries are EPB use
        let mut srvs: Vec<String> = vec![];
        for l in &spec.lines {
            if let Line::Used { id: lid, srv, .. } = l {
                if *lid == id && EPB.contains(&srv.as_str()) && !srvs.contains(srv) {
                    srvs.push(srv.clone());
                }
            }
        }
        if srvs.len() == 1 {
            e.comps.push(RComp { id, kind: Kind::Aux { srv: srvs[0].clone() }, v: w.clone(), generated: false });
            e.aux_share_defined.insert(id, true);
            continue;
        }
        // several services (or none declared): proportional to |output| per service
        let mut q: BTreeMap<String, Vec<f64>> = BTreeMap::new();
        for l in &spec.lines {
            if let Line::Out { id: lid, srv, v, .. } = l {
                if *lid == id {
                    let a = q.entry(srv.clone()).or_insert_with(|| vec![0.0; n]);
                    for t in 0..n {
                        a[t] += v[t] as f64;
                    }
                }
            }
        }
        for v in q.values_mut() {
            v.iter_mut().for_each(|x| *x = x.abs());
        }
        let qtot: Vec<f64> = (0..n).map(|t| q.values().map(|v| v[t]).sum()).collect();
        let qan: f64 = qtot.iter().sum();
        let wan: f64 = w.iter().sum();
        if qan == 0.0 {
            if wan > 0.0 {
                return Err(Reject::AuxWithoutOutput(id));
            }
            // nothing to split and nothing declared: zero-valued components or none, both fine
            e.aux_share_defined.insert(id, false);
            continue;
        }
        let mut zero_steps = vec![];
        for (srv, qs) in &q {
            let qs_an: f64 = qs.iter().sum();
            let v: Vec<f64> = (0..n)
                .map(|t| if qtot[t] > 0.0 { w[t] * qs[t] / qtot[t] } else { w[t] * qs_an / qan })
                .collect();
            e.comps.push(RComp { id, kind: Kind::Aux { srv: srv.clone() }, v, generated: true });
        }
        for t in 0..n {
            if qtot[t] == 0.0 && w[t] > 0.0 {
                zero_steps.push(t);
            }
        }
        if !zero_steps.is_empty() {
            e.aux_zero_out_steps.insert(id, zero_steps);
        }
        e.aux_share_defined.insert(id, true);
    }
    Ok(e)
}
