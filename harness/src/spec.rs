//! Building specification: the *declared* data of a components file, kept as typed lines so
//! that monitors know what was declared without trusting the parser under test.

use serde::{Deserialize, Serialize};

pub const EPB: [&str; 5] = ["ACS", "CAL", "REF", "VEN", "ILU"];
pub const CARRIERS: [&str; 12] = [
    "EAMBIENTE",
    "BIOCARBURANTE",
    "BIOMASA",
    "BIOMASADENSIFICADA",
    "CARBON",
    "ELECTRICIDAD",
    "GASNATURAL",
    "GASOLEO",
    "GLP",
    "RED1",
    "RED2",
    "TERMOSOLAR",
];
/// carriers that can feed a boiler / cogenerator (everything but electricity and the two on-site ones)
pub const FUELS: [&str; 9] = [
    "BIOCARBURANTE",
    "BIOMASA",
    "BIOMASADENSIFICADA",
    "CARBON",
    "GASNATURAL",
    "GASOLEO",
    "GLP",
    "RED1",
    "RED2",
];
pub const NEARBY: [&str; 6] = ["BIOMASA", "BIOMASADENSIFICADA", "RED1", "RED2", "EAMBIENTE", "TERMOSOLAR"];
pub const ONSITE: [&str; 2] = ["EAMBIENTE", "TERMOSOLAR"];

#[derive(Clone, Debug, Serialize, Deserialize, PartialEq)]
pub enum Line {
    Used { id: i32, srv: String, cr: String, v: Vec<f32>, comment: String },
    Prod { id: i32, src: String, v: Vec<f32>, comment: String },
    Aux { id: i32, v: Vec<f32>, comment: String },
    Out { id: i32, srv: String, v: Vec<f32>, comment: String },
    Need { srv: String, v: Vec<f32> },
}

impl Line {
    pub fn values(&self) -> &Vec<f32> {
        match self {
            Line::Used { v, .. } | Line::Prod { v, .. } | Line::Aux { v, .. } | Line::Out { v, .. } | Line::Need { v, .. } => v,
        }
    }
    pub fn values_mut(&mut self) -> &mut Vec<f32> {
        match self {
            Line::Used { v, .. } | Line::Prod { v, .. } | Line::Aux { v, .. } | Line::Out { v, .. } | Line::Need { v, .. } => v,
        }
    }
    pub fn id(&self) -> Option<i32> {
        match self {
            Line::Used { id, .. } | Line::Prod { id, .. } | Line::Aux { id, .. } | Line::Out { id, .. } => Some(*id),
            Line::Need { .. } => None,
        }
    }
    pub fn id_mut(&mut self) -> Option<&mut i32> {
        match self {
            Line::Used { id, .. } | Line::Prod { id, .. } | Line::Aux { id, .. } | Line::Out { id, .. } => Some(id),
            Line::Need { .. } => None,
        }
    }
    pub fn comment(&self) -> &str {
        match self {
            Line::Used { comment, .. } | Line::Prod { comment, .. } | Line::Aux { comment, .. } | Line::Out { comment, .. } => comment,
            Line::Need { .. } => "",
        }
    }
    pub fn comment_mut(&mut self) -> Option<&mut String> {
        match self {
            Line::Used { comment, .. } | Line::Prod { comment, .. } | Line::Aux { comment, .. } | Line::Out { comment, .. } => Some(comment),
            Line::Need { .. } => None,
        }
    }
    /// tags without id, values or comment ("CONSUMO, ACS, ELECTRICIDAD")
    pub fn tags(&self) -> String {
        match self {
            Line::Used { srv, cr, .. } => format!("CONSUMO, {}, {}", srv, cr),
            Line::Prod { src, .. } => format!("PRODUCCION, {}", src),
            Line::Aux { .. } => "AUX".to_string(),
            Line::Out { srv, .. } => format!("SALIDA, {}", srv),
            Line::Need { srv, .. } => format!("DEMANDA, {}", srv),
        }
    }
    /// carrier of the line (None for SALIDA / DEMANDA)
    pub fn carrier(&self) -> Option<&str> {
        match self {
            Line::Used { cr, .. } => Some(cr.as_str()),
            Line::Prod { src, .. } => Some(match src.as_str() {
                "EL_INSITU" | "EL_COGEN" => "ELECTRICIDAD",
                "TERMOSOLAR" => "TERMOSOLAR",
                _ => "EAMBIENTE",
            }),
            Line::Aux { .. } => Some("ELECTRICIDAD"),
            _ => None,
        }
    }
    pub fn render(&self, with_id: bool) -> String {
        let vals = fmtv(self.values());
        let mut s = match self.id() {
            Some(id) if with_id => format!("{}, {}, {}", id, self.tags(), vals),
            _ => format!("{}, {}", self.tags(), vals),
        };
        if !self.comment().is_empty() {
            s.push_str(" # ");
            s.push_str(self.comment());
        }
        s
    }
}

pub fn fmtv(v: &[f32]) -> String {
    v.iter().map(|x| format!("{}", x)).collect::<Vec<_>>().join(", ")
}

#[derive(Clone, Debug, Default, Serialize, Deserialize, PartialEq)]
pub struct Spec {
    /// number of time steps of every line
    pub n: usize,
    /// metadata (key, value) written as `#META key: value`
    pub meta: Vec<(String, String)>,
    pub lines: Vec<Line>,
}

impl Spec {
    /// canonical rendering: metadata, then one line per declared line, ids always written
    pub fn to_text(&self) -> String {
        let mut s = String::new();
        for (k, v) in &self.meta {
            s.push_str(&format!("#META {}: {}\n", k, v));
        }
        for l in &self.lines {
            s.push_str(&l.render(true));
            s.push('\n');
        }
        s
    }

    pub fn has_cogen(&self) -> bool {
        self.lines.iter().any(|l| matches!(l, Line::Prod { src, .. } if src == "EL_COGEN"))
    }
    pub fn has_pv(&self) -> bool {
        self.lines.iter().any(|l| matches!(l, Line::Prod { src, .. } if src == "EL_INSITU"))
    }
    pub fn has_aux(&self) -> bool {
        self.lines.iter().any(|l| matches!(l, Line::Aux { .. }))
    }
    pub fn carriers(&self) -> Vec<String> {
        let mut v: Vec<String> = vec![];
        for l in &self.lines {
            if let Some(c) = l.carrier() {
                if !v.iter().any(|x| x == c) {
                    v.push(c.to_string());
                }
            }
        }
        v.sort();
        v
    }
    pub fn epb_services(&self) -> Vec<String> {
        let mut v: Vec<String> = vec![];
        for l in &self.lines {
            if let Line::Used { srv, .. } = l {
                if EPB.contains(&srv.as_str()) && !v.contains(srv) {
                    v.push(srv.clone());
                }
            }
        }
        v.sort();
        v
    }

    /// every value multiplied by c (exact for powers of two)
    pub fn scaled(&self, c: f32) -> Spec {
        let mut s = self.clone();
        for l in &mut s.lines {
            l.values_mut().iter_mut().for_each(|x| *x *= c);
        }
        s
    }
    /// steps reordered: new[i] = old[perm[i]]
    pub fn permuted(&self, perm: &[usize]) -> Spec {
        let mut s = self.clone();
        for l in &mut s.lines {
            let v = l.values_mut();
            if v.len() != perm.len() {
                continue; // an annual DEMANDA next to multi-step components
            }
            *v = perm.iter().map(|&i| v[i]).collect();
        }
        s
    }
    /// every step split into m equal sub-steps carrying 1/m of its energy
    pub fn subdivided(&self, m: usize) -> Spec {
        let mut s = self.clone();
        for l in &mut s.lines {
            let v = l.values_mut();
            *v = v.iter().flat_map(|x| std::iter::repeat(*x / m as f32).take(m)).collect();
        }
        s.n *= m;
        s
    }
    /// smallest non-zero absolute value declared
    pub fn min_nonzero(&self) -> f32 {
        let mut m = f32::INFINITY;
        for l in &self.lines {
            for x in l.values() {
                if *x != 0.0 && x.abs() < m {
                    m = x.abs();
                }
            }
        }
        m
    }
    pub fn max_abs(&self) -> f32 {
        let mut m = 0.0f32;
        for l in &self.lines {
            for x in l.values() {
                m = m.max(x.abs());
            }
        }
        m
    }
    /// stable 64-bit hash of the canonical text (for counting distinct cases)
    pub fn hash(&self) -> u64 {
        fnv(self.to_text().as_bytes())
    }
}

pub fn fnv(b: &[u8]) -> u64 {
    let mut h: u64 = 0xcbf29ce484222325;
    for x in b {
        h ^= *x as u64;
        h = h.wrapping_mul(0x100000001b3);
    }
    h
}

// ---------------------------------------------------------------------------------------------
// Rewritings of a components file that must not change what is declared (property C10)

#[derive(Clone, Debug, Default, Serialize, Deserialize)]
pub struct Rewrite {
    pub shuffle: bool,
    /// split some lines into 2-3 lines with the same tags whose values add up to the original
    pub split: bool,
    /// consistent renumbering of system ids
    pub renumber: bool,
    pub comments: bool,
    pub blank_lines: bool,
    pub header: bool,
    pub bom: bool,
    pub padding: bool,
    /// omit the id of id-0 CONSUMO / PRODUCCION / AUX lines (legacy form)
    pub omit_id0: bool,
    pub seed: u64,
}

impl Rewrite {
    pub fn names(&self) -> Vec<&'static str> {
        let mut v = vec![];
        for (f, n) in [
            (self.shuffle, "shuffle"),
            (self.split, "split"),
            (self.renumber, "renumber"),
            (self.comments, "comments"),
            (self.blank_lines, "blank_lines"),
            (self.header, "header"),
            (self.bom, "bom"),
            (self.padding, "padding"),
            (self.omit_id0, "omit_id0"),
        ] {
            if f {
                v.push(n);
            }
        }
        v
    }
}

/// split a value into two parts on the same grid (1/8 for dyadic values, 0.01 otherwise) that add up to it
fn split_value(x: f32, f: f64) -> (f32, f32) {
    if x == 0.0 {
        return (0.0, 0.0);
    }
    let dy = (x * 8.0).fract() == 0.0;
    let g = if dy { 8.0 } else { 100.0 };
    let units = (x as f64 * g).round();
    let a = (units * f).trunc();
    let b = units - a;
    ((a / g) as f32, (b / g) as f32)
}

impl Spec {
    /// the declared data after the rewriting, as a new Spec (lines split / renumbered / reordered)
    pub fn rewritten(&self, rw: &Rewrite) -> Spec {
        let mut r = crate::rng::Rng::new(rw.seed);
        let mut s = self.clone();
        if rw.split {
            let mut out = vec![];
            for l in s.lines.into_iter() {
                if r.chance(1, 2) {
                    let f1 = r.range_f(0.1, 0.9);
                    let mut a = l.clone();
                    let mut b = l.clone();
                    // delivered / absorbed energy (SALIDA) may be negative, so its parts may have opposite signs
                    // (30 written as 60 and -30): f > 1 makes the second part negative
                    let f1 = if matches!(l, Line::Out { .. }) && r.chance(1, 3) { r.range_f(1.25, 3.0) } else { f1 };
                    let parts: Vec<(f32, f32)> = l.values().iter().map(|x| split_value(*x, f1)).collect();
                    *a.values_mut() = parts.iter().map(|p| p.0).collect();
                    *b.values_mut() = parts.iter().map(|p| p.1).collect();
                    if r.chance(1, 3) {
                        // three parts
                        let f2 = r.range_f(0.2, 0.8);
                        let mut c = b.clone();
                        let parts2: Vec<(f32, f32)> = b.values().iter().map(|x| split_value(*x, f2)).collect();
                        *b.values_mut() = parts2.iter().map(|p| p.0).collect();
                        *c.values_mut() = parts2.iter().map(|p| p.1).collect();
                        out.push(c);
                    }
                    out.push(a);
                    out.push(b);
                } else {
                    out.push(l);
                }
            }
            s.lines = out;
        }
        if rw.renumber {
            let mut ids: Vec<i32> = s.lines.iter().filter_map(|l| l.id()).collect();
            ids.sort();
            ids.dedup();
            let mut pool: Vec<i32> = vec![0, 1, 2, 3, 4, 5, 6, 8, 9, 10, 11, 40, 100, 1000, -1, -2, -3, -10, -2147483648, 2147483647, 12345];
            if r.chance(1, 3) {
                // neighbouring ids beyond 2^24 first: f32 cannot tell them apart
                pool = vec![16777216, 16777217, 16777218, 2000000001, 2000000002, -2147483648, -2147483647, 2147483646, 2147483647, 16777219, 33554432, 33554433];
            }
            // a bijection needs as many new ids as there are systems
            let mut fresh = 5000;
            while pool.len() < ids.len() {
                pool.push(fresh);
                fresh += 7;
            }
            r.shuffle(&mut pool);
            let map: std::collections::BTreeMap<i32, i32> = ids.iter().enumerate().map(|(i, id)| (*id, pool[i % pool.len()])).collect();
            for l in s.lines.iter_mut() {
                if let Some(id) = l.id_mut() {
                    *id = map[id];
                }
            }
        }
        if rw.shuffle {
            r.shuffle(&mut s.lines);
        }
        s
    }

    /// text of `self` with the purely textual rewritings applied
    pub fn render_rewritten(&self, rw: &Rewrite) -> String {
        let mut r = crate::rng::Rng::new(rw.seed ^ 0xABCDEF);
        let mut s = String::new();
        if rw.bom {
            s.push('\u{feff}');
        }
        // whatever comes first in the file (a comment, a blank line, metadata, the header, data) may follow the
        // byte-order mark with surrounding whitespace of its own
        let lead = |r: &mut crate::rng::Rng| if rw.padding { *r.pick(&["", " ", "\t", "   "]) } else { "" };
        if rw.comments && r.chance(1, 4) {
            s.push_str(&format!("{}# archivo de componentes\n", lead(&mut r)));
        }
        if rw.blank_lines && r.chance(1, 4) {
            s.push_str(*r.pick(&["\n", "  \n"]));
        }
        // reordering lines: metadata lines are lines too - they keep their relative order but may end up anywhere
        // between the data lines (position = number of data lines written before them)
        let mut meta_at: Vec<usize> = self.meta.iter().map(|_| if rw.shuffle && r.chance(1, 2) { r.usize(self.lines.len() + 1) } else { 0 }).collect();
        meta_at.sort();
        let meta_line = |r: &mut crate::rng::Rng, k: &str, v: &str| format!("{}#META {}: {}{}\n", lead(r), k, v, if rw.padding { *r.pick(&["", " ", "\t"]) } else { "" });
        for (i, (k, v)) in self.meta.iter().enumerate() {
            if meta_at[i] == 0 {
                let ml = meta_line(&mut r, k, v);
                s.push_str(&ml);
            }
        }
        if rw.header {
            s.push_str(&format!("{}vector, tipo, src_dst, 1, 2, 3\n", lead(&mut r)));
        }
        for (li, l) in self.lines.iter().enumerate() {
            for (i, (k, v)) in self.meta.iter().enumerate() {
                if meta_at[i] == li && li > 0 {
                    let ml = meta_line(&mut r, k, v);
                    s.push_str(&ml);
                }
            }
            if rw.comments && r.chance(1, 3) {
                s.push_str(*r.pick(&["# comentario", "#", "# 1, CONSUMO, ACS, ELECTRICIDAD, 10", "#   <&> ñ"]));
                s.push('\n');
            }
            if rw.blank_lines && r.chance(1, 3) {
                s.push_str(*r.pick(&["\n", "   \n", "\t\n"]));
            }
            let with_id = !(rw.omit_id0 && l.id() == Some(0) && matches!(l, Line::Used { .. } | Line::Prod { .. } | Line::Aux { .. }));
            let mut txt = l.render(with_id);
            if rw.comments && l.comment().is_empty() && !matches!(l, Line::Need { .. }) && r.chance(1, 3) {
                // a trailing comment on a line that had none (not one of the tags the DHW indicator reads)
                txt.push_str(" # añadido <x> & \"y\"");
            }
            if rw.comments && !l.comment().is_empty() && r.chance(1, 3) {
                // a remark with its own '#' inserted before the existing comment
                if let Some((body, c)) = txt.split_once('#') {
                    txt = format!("{}# nota 2,5 #{}", body, c);
                }
            }
            if rw.padding {
                let (body, comment) = match txt.split_once('#') {
                    Some((b, c)) => (b.to_string(), Some(c.to_string())),
                    None => (txt.clone(), None),
                };
                let padded: Vec<String> = body
                    .split(',')
                    .map(|f| {
                        let f = f.trim();
                        match r.below(4) {
                            0 => format!("  {f}  "),
                            1 => format!("\t{f}"),
                            2 => format!("{f} "),
                            _ => f.to_string(),
                        }
                    })
                    .collect();
                txt = padded.join(",");
                if let Some(c) = comment {
                    txt.push_str(" #");
                    txt.push_str(&c);
                }
                txt = format!("{}{}{}", r.pick(&["", " ", "\t", "    "]), txt, r.pick(&["", " ", "\t"]));
            }
            s.push_str(&txt);
            s.push_str(if rw.padding && r.chance(1, 4) { "\r\n" } else { "\n" });
        }
        for (i, (k, v)) in self.meta.iter().enumerate() {
            if meta_at[i] >= self.lines.len() && meta_at[i] > 0 {
                let ml = meta_line(&mut r, k, v);
                s.push_str(&ml);
            }
        }
        if rw.blank_lines {
            s.push_str("\n\n");
        }
        s
    }
}

/// The same file with some of its values spelled another way that denotes the same f32 (exponent notation, explicit
/// plus sign, trailing zeros, bare leading / trailing dot): what is declared is the number, not its spelling.
/// Only the fields after the last non-numeric field of a data line are touched (never ids or tags), comments are kept.
pub fn respell_values(text: &str, r: &mut crate::rng::Rng) -> String {
    let mut out = String::new();
    for line in text.lines() {
        let t = line.trim_start();
        if t.starts_with('#') || !t.contains(',') || t.starts_with("vector") {
            out.push_str(line);
            out.push('\n');
            continue;
        }
        let (body, comment) = match line.split_once('#') {
            Some((b, c)) => (b, Some(c)),
            None => (line, None),
        };
        let fields: Vec<&str> = body.split(',').collect();
        let last_text = fields.iter().rposition(|f| f.trim().parse::<f32>().is_err()).unwrap_or(0);
        let mut newf: Vec<String> = vec![];
        for (i, f) in fields.iter().enumerate() {
            let ft = f.trim();
            let mut repl = f.to_string();
            if i > last_text && r.chance(1, 3) {
                if let Ok(v) = ft.parse::<f32>() {
                    let cand = match r.below(6) {
                        0 => format!("{:e}", v),
                        1 => format!("{:E}", v),
                        2 if v >= 0.0 => format!("+{}", ft),
                        3 if ft.contains('.') => format!("{}00", ft),
                        4 if !ft.contains('.') => format!("{}.", ft),
                        5 if ft.starts_with("0.") => ft[1..].to_string(),
                        _ => ft.to_string(),
                    };
                    if cand.parse::<f32>().map(|w| w.to_bits() == v.to_bits()).unwrap_or(false) {
                        repl = format!(" {}", cand);
                    }
                }
            }
            newf.push(repl);
        }
        out.push_str(&newf.join(","));
        if let Some(c) = comment {
            out.push('#');
            out.push_str(c);
        }
        out.push('\n');
    }
    out
}

impl Spec {
    /// A sibling building: the values of two consumption lines of one carrier that belong to different EPB services are
    /// swapped - the carrier's total use at every step stays the same, its split between the services changes.
    pub fn sibling_with_swapped_services(&self) -> Option<Spec> {
        let mut sib = self.clone();
        let idx: Vec<usize> = sib.lines.iter().enumerate().filter(|(_, l)| matches!(l, Line::Used { srv, .. } if EPB.contains(&srv.as_str()))).map(|(i, _)| i).collect();
        for a in 0..idx.len() {
            for b in a + 1..idx.len() {
                let (i, j) = (idx[a], idx[b]);
                let other_service = match (&sib.lines[i], &sib.lines[j]) {
                    (Line::Used { srv: s1, .. }, Line::Used { srv: s2, .. }) => s1 != s2,
                    _ => false,
                };
                if other_service && sib.lines[i].carrier() == sib.lines[j].carrier() && sib.lines[i].values().len() == sib.lines[j].values().len() && sib.lines[i].values() != sib.lines[j].values() {
                    let vi = sib.lines[i].values().clone();
                    let vj = sib.lines[j].values().clone();
                    *sib.lines[i].values_mut() = vj;
                    *sib.lines[j].values_mut() = vi;
                    return Some(sib);
                }
            }
        }
        None
    }
}
