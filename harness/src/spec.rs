//! Building specification: the *declared* data of a components file, kept as typed lines so
//! that monitors know what was declared without trusting the parser under test.

use serde::{Deserialize, Serialize};

pub const EPB: [&str; 5] = ["ACS", "CAL", "REF", "VEN", "ILU"];
pub const CARRIERS: [&str; 12] = [
    "EAMBIENTE",
    "BIOCARBURANTE",
    "BIOMASA",
    "BIOMASADENSIFICADA",
    "CARBON",
    "ELECTRICIDAD",
    "GASNATURAL",
    "GASOLEO",
    "GLP",
    "RED1",
    "RED2",
    "TERMOSOLAR",
];
/// carriers that can feed a boiler / cogenerator (everything but electricity and the two on-site ones)
pub const FUELS: [&str; 9] = [
    "BIOCARBURANTE",
    "BIOMASA",
    "BIOMASADENSIFICADA",
    "CARBON",
    "GASNATURAL",
    "GASOLEO",
    "GLP",
    "RED1",
    "RED2",
];
pub const NEARBY: [&str; 6] = ["BIOMASA", "BIOMASADENSIFICADA", "RED1", "RED2", "EAMBIENTE", "TERMOSOLAR"];
pub const ONSITE: [&str; 2] = ["EAMBIENTE", "TERMOSOLAR"];

#[derive(Clone, Debug, Serialize, Deserialize, PartialEq)]
pub enum Line {
    Used { id: i32, srv: String, cr: String, v: Vec<f32>, comment: String },
    Prod { id: i32, src: String, v: Vec<f32>, comment: String },
    Aux { id: i32, v: Vec<f32>, comment: String },
    Out { id: i32, srv: String, v: Vec<f32>, comment: String },
    Need { srv: String, v: Vec<f32> },
}

impl Line {
    pub fn values(&self) -> &Vec<f32> {
        match self {
            Line::Used { v, .. } | Line::Prod { v, .. } | Line::Aux { v, .. } | Line::Out { v, .. } | Line::Need { v, .. } => v,
        }
    }
    pub fn values_mut(&mut self) -> &mut Vec<f32> {
        match self {
            Line::Used { v, .. } | Line::Prod { v, .. } | Line::Aux { v, .. } | Line::Out { v, .. } | Line::Need { v, .. } => v,
        }
    }
    pub fn id(&self) -> Option<i32> {
        match self {
            Line::Used { id, .. } | Line::Prod { id, .. } | Line::Aux { id, .. } | Line::Out { id, .. } => Some(*id),
            Line::Need { .. } => None,
        }
    }
    pub fn id_mut(&mut self) -> Option<&mut i32> {
        match self {
            Line::Used { id, .. } | Line::Prod { id, .. } | Line::Aux { id, .. } | Line::Out { id, .. } => Some(id),
            Line::Need { .. } => None,
        }
    }
    pub fn comment(&self) -> &str {
        match self {
            Line::Used { comment, .. } | Line::Prod { comment, .. } | Line::Aux { comment, .. } | Line::Out { comment, .. } => comment,
            Line::Need { .. } => "",
        }
    }
    pub fn comment_mut(&mut self) -> Option<&mut String> {
        match self {
            Line::Used { comment, .. } | Line::Prod { comment, .. } | Line::Aux { comment, .. } | Line::Out { comment, .. } => Some(comment),
            Line::Need { .. } => None,
        }
    }
    /// tags without id, values or comment ("CONSUMO, ACS, ELECTRICIDAD")
    pub fn tags(&self) -> String {
        match self {
            Line::Used { srv, cr, .. } => format!("CONSUMO, {}, {}", srv, cr),
            Line::Prod { src, .. } => format!("PRODUCCION, {}", src),
            Line::Aux { .. } => "AUX".to_string(),
            Line::Out { srv, .. } => format!("SALIDA, {}", srv),
            Line::Need { srv, .. } => format!("DEMANDA, {}", srv),
        }
    }
    /// carrier of the line (None for SALIDA / DEMANDA)
    pub fn carrier(&self) -> Option<&str> {
        match self {
            Line::Used { cr, .. } => Some(cr.as_str()),
            Line::Prod { src, .. } => Some(match src.as_str() {
                "EL_INSITU" | "EL_COGEN" => "ELECTRICIDAD",
                "TERMOSOLAR" => "TERMOSOLAR",
                _ => "EAMBIENTE",
            }),
            Line::Aux { .. } => Some("ELECTRICIDAD"),
            _ => None,
        }
    }
    pub fn render(&self, with_id: bool) -> String {
        let vals = fmtv(self.values());
        let mut s = match self.id() {
            Some(id) if with_id => format!("{}, {}, {}", id, self.tags(), vals),
            _ => format!("{}, {}", self.tags(), vals),
        };
        if !self.comment().is_empty() {
            s.push_str(" # ");
            s.push_str(self.comment());
        }
        s
    }
}

pub fn fmtv(v: &[f32]) -> String {
    v.iter().map(|x| format!("{}", x)).collect::<Vec<_>>().join(", ")
}

#[derive(Clone, Debug, Default, Serialize, Deserialize, PartialEq)]
pub struct Spec {
    /// number of time steps of every line
    pub n: usize,
    /// metadata (key, value) written as `#META key: value`
    pub meta: Vec<(String, String)>,
    pub lines: Vec<Line>,
}

impl Spec {
    /// canonical rendering: metadata, then one line per declared line, ids always written
    pub fn to_text(&self) -> String {
        let mut s = String::new();
        for (k, v) in &self.meta {
            s.push_str(&format!("#META {}: {}\n", k, v));
        }
        for l in &self.lines {
            s.push_str(&l.render(true));
            s.push('\n');
        }
        s
    }

    pub fn has_cogen(&self) -> bool {
        self.lines.iter().any(|l| matches!(l, Line::Prod { src, .. } if src == "EL_COGEN"))
    }
    pub fn has_pv(&self) -> bool {
        self.lines.iter().any(|l| matches!(l, Line::Prod { src, .. } if src == "EL_INSITU"))
    }
    pub fn has_aux(&self) -> bool {
        self.lines.iter().any(|l| matches!(l, Line::Aux { .. }))
    }
    pub fn carriers(&self) -> Vec<String> {
        let mut v: Vec<String> = vec![];
        for l in &self.lines {
            if let Some(c) = l.carrier() {
                if !v.iter().any(|x| x == c) {
                    v.push(c.to_string());
                }
            }
        }
        v.sort();
        v
    }
    pub fn epb_services(&self) -> Vec<String> {
        let mut v: Vec<String> = vec![];
        for l in &self.lines {
            if let Line::Used { srv, .. } = l {
                if EPB.contains(&srv.as_str()) && !v.contains(srv) {
                    v.push(srv.clone());
                }
            }
        }
        v.sort();
        v
    }

    /// every value multiplied by c (exact for powers of two)
    pub fn scaled(&self, c: f32) -> Spec {
        let mut s = self.clone();
        for l in &mut s.lines {
            l.values_mut().iter_mut().for_each(|x| *x *= c);
        }
        s
    }
    /// steps reordered: new[i] = old[perm[i]]
    pub fn permuted(&self, perm: &[usize]) -> Spec {
        let mut s = self.clone();
        for l in &mut s.lines {
            let v = l.values_mut();
            *v = perm.iter().map(|&i| v[i]).collect();
        }
        s
    }
    /// every step split into m equal sub-steps carrying 1/m of its energy
    pub fn subdivided(&self, m: usize) -> Spec {
        let mut s = self.clone();
        for l in &mut s.lines {
            let v = l.values_mut();
            *v = v.iter().flat_map(|x| std::iter::repeat(*x / m as f32).take(m)).collect();
        }
        s.n *= m;
        s
    }
    /// smallest non-zero absolute value declared
    pub fn min_nonzero(&self) -> f32 {
        let mut m = f32::INFINITY;
        for l in &self.lines {
            for x in l.values() {
                if *x != 0.0 && x.abs() < m {
                    m = x.abs();
                }
            }
        }
        m
    }
    pub fn max_abs(&self) -> f32 {
        let mut m = 0.0f32;
        for l in &self.lines {
            for x in l.values() {
                m = m.max(x.abs());
            }
        }
        m
    }
    /// stable 64-bit hash of the canonical text (for counting distinct cases)
    pub fn hash(&self) -> u64 {
        fnv(self.to_text().as_bytes())
    }
}

pub fn fnv(b: &[u8]) -> u64 {
    let mut h: u64 = 0xcbf29ce484222325;
    for x in b {
        h ^= *x as u64;
        h = h.wrapping_mul(0x100000001b3);
    }
    h
}
