//! Corruption engine: token- and byte-level mutation of valid component / factor files, and token soups.

use crate::rng::Rng;

pub const TOKENS: [&str; 64] = [
    "CONSUMO", "PRODUCCION", "AUX", "SALIDA", "DEMANDA", "ACS", "CAL", "REF", "VEN", "ILU", "NEPB", "COGEN", "ELECTRICIDAD", "EAMBIENTE", "TERMOSOLAR", "BIOMASA",
    "BIOMASADENSIFICADA", "GASNATURAL", "RED1", "RED2", "EL_INSITU", "EL_COGEN", "RED", "INSITU", "A_RED", "A_NEPB", "SUMINISTRO", "A", "B", "0", "1", "-1", "2", "1.5",
    "-3.25", "1e10", "1e39", "-1e39", "NaN", "nan", "inf", "-inf", "-0", "1e-40", "", " ", "#", "#META", "#CTE_", "#META CTE_KEXP: 2", "#META CTE_AREAREF: x", "#META CTE_RED1: a, b",
    "#META sin_dos_puntos", "#CTE_AREAREF: 5", "vector", "vector,", "á€ñ", "日本", "0x10", "1,2", "1;2", "9999999999", "-2147483649", "\u{feff}",
];

fn split_fields(l: &str) -> Vec<String> {
    l.split(',').map(|s| s.to_string()).collect()
}

/// apply 1-3 random mutations to a text
pub fn mutate(r: &mut Rng, txt: &str) -> String {
    let mut lines: Vec<String> = txt.lines().map(|s| s.to_string()).collect();
    let nm = 1 + r.below(3);
    for _ in 0..nm {
        if lines.is_empty() {
            lines.push(String::new());
        }
        let li = r.usize(lines.len());
        match r.below(16) {
            0 => {
                lines.remove(li);
            }
            1 => {
                let l = lines[li].clone();
                lines.insert(li, l);
            }
            2 => {
                // truncate a line (at a char boundary)
                let l = lines[li].clone();
                let mut c = r.usize(l.len() + 1);
                while !l.is_char_boundary(c) {
                    c -= 1;
                }
                lines[li] = l[..c].to_string();
            }
            3 => {
                let mut f = split_fields(&lines[li]);
                let i = r.usize(f.len());
                f.remove(i);
                lines[li] = f.join(",");
            }
            4 => {
                let mut f = split_fields(&lines[li]);
                let i = r.usize(f.len());
                f[i] = r.pick(&TOKENS).to_string();
                lines[li] = f.join(",");
            }
            5 => {
                let mut f = split_fields(&lines[li]);
                let i = r.usize(f.len() + 1);
                f.insert(i, r.pick(&TOKENS).to_string());
                lines[li] = f.join(",");
            }
            6 => {
                let j = r.usize(lines.len());
                lines.swap(li, j);
            }
            7 => {
                let mut f = split_fields(&lines[li]);
                let i = r.usize(f.len());
                let j = r.usize(f.len());
                f.swap(i, j);
                lines[li] = f.join(",");
            }
            8 => {
                // a soup line
                let n = 1 + r.usize(8);
                let f: Vec<String> = (0..n).map(|_| r.pick(&TOKENS).to_string()).collect();
                lines.insert(li, f.join(","));
            }
            9 => {
                // wrong length: drop or add trailing values
                let mut f = split_fields(&lines[li]);
                if r.chance(1, 2) && f.len() > 1 {
                    let k = 1 + r.usize(f.len().min(4));
                    f.truncate(f.len() - k.min(f.len() - 1));
                } else {
                    for _ in 0..1 + r.usize(3) {
                        f.push(" 1.0".into());
                    }
                }
                lines[li] = f.join(",");
            }
            10 => {
                // replace one value by a hostile number
                let mut f = split_fields(&lines[li]);
                let i = r.usize(f.len());
                f[i] = r.pick(&["NaN", "inf", "-inf", "1e39", "-0", "1e-45", "1e-40", "3.4028235e38", "-1", "", "1e", "--1", "+1", "1_0", "0x1p3", "١٢"]).to_string();
                lines[li] = f.join(",");
            }
            11 => {
                // byte-level: replace / insert one character
                let l: Vec<char> = lines[li].chars().collect();
                if !l.is_empty() {
                    let i = r.usize(l.len());
                    let c = *r.pick(&[',', '#', ':', ' ', '\t', '-', '.', 'e', 'é', '€', '\u{0}', '\u{7f}', '"', '<', '&', '\\', ';', '\u{feff}', '\u{200b}']);
                    let mut l2 = l.clone();
                    if r.chance(1, 2) {
                        l2[i] = c;
                    } else {
                        l2.insert(i, c);
                    }
                    lines[li] = l2.into_iter().collect();
                }
            }
            12 => {
                // duplicate the whole file's data with another length
                let extra: Vec<String> = lines.iter().filter(|l| l.contains("CONSUMO") || l.contains("DEMANDA")).take(2).map(|l| format!("{l}, 7")).collect();
                lines.extend(extra);
            }
            13 => {
                // change an id
                let mut f = split_fields(&lines[li]);
                f[0] = r.pick(&["-1", "99999999999", "1.5", "x", "", "0", "-0", "+3", " 2 "]).to_string();
                lines[li] = f.join(",");
            }
            14 => {
                // metadata mutations
                lines.insert(
                    0,
                    r.pick(&[
                        "#META",
                        "#META :",
                        "#META a",
                        "#META CTE_AREAREF: -5",
                        "#META CTE_KEXP: abc",
                        "#CTE_",
                        "#META CTE_LOCALIZACION: MARTE",
                        "#META CTE_RED1: 1, 2",
                        "#META CTE_RED2: {ren: x}",
                        "#METAé: ü",
                        "#META CTE_RED1: { ren: 0.0, nren: 1.3, co2 }",
                        "#META CTE_RED2: {}",
                        "#META CTE_RED1: {, 1.3, 0.3",
                        "#META CTE_RED2: { ren: 1, nren: 2, co2: 3, }",
                        "#META CTE_RED1: (1, 2, 3",
                        "#META CTE_RED1: ((0.5, 0.5, 0.1))",
                        "#META CTE_RED2: { : }",
                        "#META CTE_RED1: {ren}",
                        "#META CTE_RED1: ,,",
                        "#META CTE_RED2: { ren: 0.5, nren: 0.6, co2: 0.1 }",
                        "#META CTE_AREAREF:",
                        "#META CTE_KEXP: 1e-400",
                        "#META CTE_AREAREF: 1e400",
                    ])
                    .to_string(),
                );
            }
            _ => {
                // remove every line of one kind (e.g. all SALIDA lines of a system with AUX)
                let kind = *r.pick(&["SALIDA", "CONSUMO", "PRODUCCION", "AUX", "DEMANDA", "RED, SUMINISTRO"]);
                lines.retain(|l| !l.contains(kind));
            }
        }
    }
    lines.join(if r.chance(1, 10) { "\r\n" } else { "\n" })
}

/// a text made only of vocabulary tokens
pub fn soup(r: &mut Rng) -> String {
    let nl = 1 + r.usize(8);
    let mut s = String::new();
    for _ in 0..nl {
        let n = 1 + r.usize(10);
        let f: Vec<&str> = (0..n).map(|_| *r.pick(&TOKENS)).collect();
        s.push_str(&f.join(if r.chance(1, 8) { " , " } else { "," }));
        s.push('\n');
    }
    s
}

/// every .csv under /repo/test_data (components and factors), split by kind
pub fn seed_files(repo: &std::path::Path) -> (Vec<String>, Vec<String>) {
    let mut comps = vec![];
    let mut facs = vec![];
    let mut stack = vec![repo.join("test_data")];
    while let Some(d) = stack.pop() {
        let Ok(rd) = std::fs::read_dir(&d) else { continue };
        let mut entries: Vec<_> = rd.filter_map(|e| e.ok()).map(|e| e.path()).collect();
        entries.sort();
        for p in entries {
            if p.is_dir() {
                stack.push(p);
            } else if p.extension().map(|x| x == "csv").unwrap_or(false) {
                if let Ok(bytes) = std::fs::read(&p) {
                    let t = String::from_utf8_lossy(&bytes).to_string();
                    if t.contains("SUMINISTRO") {
                        facs.push(t);
                    } else if t.contains("CONSUMO") || t.contains("PRODUCCION") {
                        comps.push(t);
                    }
                }
            }
        }
    }
    (comps, facs)
}

/// hostile texts for the (ren, nren, co2) triple parser (metadata values, option values)
pub fn triple_soup(r: &mut Rng) -> String {
    let toks = ["{", "}", "(", ")", ",", ":", " ", "ren", "nren", "co2", "1", "0.5", "-1", "1e39", "nan", "x", "ren:", "nren: 1", "co2 }", "{ ren", "é", ""];
    let n = 1 + r.usize(9);
    (0..n).map(|_| *r.pick(&toks)).collect::<Vec<_>>().join(if r.chance(1, 2) { " " } else { "" })
}
